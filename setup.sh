#!/bin/sh
# builds /verif/.venv: a venv of /venv's interpreter that sees /venv's site-packages (pandas, numpy, pyg_base editable -> /repo/src)
# plus crosshair-tool and z3-solver from the offline wheelhouse.  No network.
set -e
HERE="$(cd "$(dirname "$0")" && pwd)"
if [ -x "$HERE/.venv/bin/python" ] && "$HERE/.venv/bin/python" -c "import crosshair, z3, pandas, pyg_base" 2>/dev/null; then echo "verif venv ok"; exit 0; fi
rm -rf "$HERE/.venv"
/venv/bin/python -m venv "$HERE/.venv"
SP="$HERE/.venv/lib/python3.12/site-packages"
echo "import site; site.addsitedir('/venv/lib/python3.12/site-packages')" > "$SP/_overlay.pth"
PIP_NO_INDEX=1 "$HERE/.venv/bin/pip" install -q --no-index --find-links /opt/veriftools/wheels crosshair-tool z3-solver
"$HERE/.venv/bin/python" -c "import crosshair, z3, pandas, pyg_base; print('verif venv built: z3', z3.get_version_string())"
