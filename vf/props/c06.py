"""C06 inc and exc partition a table; both keep the columns and the row order."""
import re
from vf.runner import Ob
from vf.symx import core, shims, ops as X
from . import values as V

FUNCS = ['pyg_base._dictable:dictable.inc', 'pyg_base._dictable:dictable.exc', 'pyg_base._dictable:_row_check', 'pyg_base._dictable:and_',
         'pyg_base._dictable:dictable.__getitem__', 'pyg_base._dictable:dictable.__getattr__', 'pyg_base._dictable:dictable.one_or_none',
         'pyg_base._decorators:kwargs_support', 'pyg_base._types:is_nan']
BOUNDS = dict(table = 'rows 0..3 (thorough 4), columns a, b (+ a concrete row-id column)',
              cells = 'None | any int | any float incl. NaN (same or different object identity) and +-inf | string from a 5-pool',
              conditions = 'value, list of 1..2 values, None, NaN, compiled regex from a 3-pool, dict filter, conjunction of two column conditions, single callable from a pool of 4 '
                           '(incl. one returning non-bool truthy values); find_<col> (keyword, dict and callable spellings) on tables whose cells come from concrete pools (set() hashes them); regex conditions against non-string cells from a concrete pool')
OUTSIDE = ['several callables at once', 'conditions that are containers of containers', 'tables with more than 4 rows']
ASSUMPTIONS = ['floats are extended reals; np.isnan/np.isinf on scalars replaced by proxy-aware versions', 'strings and regexes come from fixed pools chosen by a symbolic index']

CELL = ['none', 'int', 'float', 'str']
REGEX = [re.compile('^a'), re.compile('b$', re.I), re.compile('x')]

def setup():
    import pyg_base._types as T, pyg_base._dictable as DT
    np_ = shims.NP()
    shims.patch(T, np = np_)

def _is_nan_lib(v):
    """the library's notion used by the NaN condition (is_nan: NaN or +-inf), restated"""
    if isinstance(v, core.SymFloat): return core.mkbool(v.kind != core.FIN)
    return isinstance(v, float) and (v != v or v in (float('inf'), float('-inf')))

POOL = [None, 1, 2, 'a', 'B']
def table(c, n, pool_cells = False, kinds = None, strs = ('a', 'B'), pool = POOL):
    """kinds: per column the cell kinds; a column with kinds None holds concrete payload values"""
    from pyg_base import dictable
    kinds = kinds or dict(a = CELL, b = CELL)
    cols = dict(a = [], b = []); floats = []
    for i in range(n):
        for k in 'ab':
            if kinds[k] is None: v = 'row%d' % i
            elif pool_cells: v = c.pick('%s%d' % (k, i), pool)
            else: v = V.scalar(c, '%s%d' % (k, i), kinds[k], pool = floats, strs = list(strs))
            if isinstance(v, (float, core.SymFloat)) and v.__class__ is float: floats.append(v)
            cols[k].append(v)
    d = dictable(a = list(cols['a']), b = list(cols['b']), rid = list(range(n)))
    return d, cols, floats

def in_list(v, lst):
    """python's `v in lst`: identity or equality"""
    return X.Or([True if v is x else V.same_eq(v, x) for x in lst]) if lst else False

def cond_value(c, name, floats):
    kind = c.pick(name + '.ckind', ['value', 'list1', 'list2', 'none', 'nan', 'regex'])
    S2 = ['a', 'zz']
    if kind == 'value':
        v = V.scalar(c, name + '.v', ['int', 'float', 'str'], pool = floats, strs = S2)
        if _is_nan_lib(v): return v, (lambda r: _is_nan_lib(r)), 'nan'          # a NaN (or inf) value *is* the NaN condition
        return v, (lambda r: in_list(r, [v])), kind
    if kind == 'list1':
        v = V.scalar(c, name + '.v', ['int', 'float', 'str'], pool = floats, strs = S2); return [v], (lambda r: in_list(r, [v])), kind
    if kind == 'list2':
        v = V.scalar(c, name + '.v', ['int', 'float', 'str', 'none'], pool = floats, strs = S2); w = V.scalar(c, name + '.w', ['int', 'str'], pool = floats, strs = ['B'])
        return [v, w], (lambda r: in_list(r, [v, w])), kind
    if kind == 'none': return None, (lambda r: r is None), kind
    if kind == 'nan':
        v = c.float(name + '.nan', allow = (core.NAN, core.PINF)); return v, (lambda r: _is_nan_lib(r)), kind
    rx = c.pick(name + '.rx', REGEX); return rx, (lambda r: isinstance(r, str) and rx.search(r) is not None), kind

def rows_of(d): return [dict(r) for r in d]

def check_partition(c, d, cols, n, inc, exc, pred):
    """inc == satisfying rows in order, exc == the others in order, all columns kept, operand unchanged"""
    keep = [pred(i) for i in range(n)]
    want_inc = [i for i in range(n) if keep[i]]       # forks on symbolic predicates: one path per outcome vector
    want_exc = [i for i in range(n) if not keep[i]]
    c.check('inc-is-exactly-the-satisfying-rows-in-order', list(inc['rid']) == want_inc)
    c.check('exc-is-exactly-the-other-rows-in-order', list(exc['rid']) == want_exc)
    c.check('columns-kept-even-when-empty', list(inc.keys()) == ['a', 'b', 'rid'] and list(exc.keys()) == ['a', 'b', 'rid'])
    c.check('rows-intact', all(inc[k][p] is cols[k][i] for k in 'ab' for p, i in enumerate(want_inc)) and all(exc[k][p] is cols[k][i] for k in 'ab' for p, i in enumerate(want_exc)))
    c.check('operand-unchanged', list(d['rid']) == list(range(n)) and all(d[k][i] is cols[k][i] for k in 'ab' for i in range(n)))
    c.check('type-kept', type(inc) is type(d) and type(exc) is type(d))

def h_keyword(n, two, strs = ('a', 'B')):
    def h(c):
        d, cols, floats = table(c, n, kinds = dict(a = CELL, b = CELL if two else None), strs = strs)
        va, pa, ka = cond_value(c, 'ca', floats)
        if two:
            vb, pb, kb = cond_value(c, 'cb', floats)
            inc = d.inc(a = va, b = vb); exc = d.exc(a = va, b = vb)
            pred = lambda i: X.And(pa(cols['a'][i]), pb(cols['b'][i]))
        else:
            inc = d.inc(a = va); exc = d.exc(a = va); pred = lambda i: pa(cols['a'][i])
        check_partition(c, d, cols, n, inc, exc, pred)
        again = d.inc(a = va, b = vb).inc(a = va, b = vb) if two else d.inc(a = va).inc(a = va)
        c.check('inc-idempotent', list(again['rid']) == list(inc['rid']))
    return h

def h_split_conjunction(n, how):
    """a conjunction split over a dict filter and keywords (or two dict filters) is still one conjunction: inc = rows satisfying both, exc = all the others"""
    def h(c):
        d, cols, floats = table(c, n, kinds = dict(a = ['none', 'int'], b = ['none', 'int']))
        va = c.pick('va', [None, 0, 1]); vb = c.pick('vb', [None, 0, 1])
        pa = (lambda r: r is None) if va is None else (lambda r: in_list(r, [va])); pb = (lambda r: r is None) if vb is None else (lambda r: in_list(r, [vb]))
        if how == 'dict+kw': inc = d.inc(dict(a = va), b = vb); exc = d.exc(dict(a = va), b = vb)
        else: inc = d.inc(dict(a = va), dict(b = vb)); exc = d.exc(dict(a = va), dict(b = vb))
        check_partition(c, d, cols, n, inc, exc, lambda i: X.And(pa(cols['a'][i]), pb(cols['b'][i])))
    return h

def h_dictfilter(n):
    def h(c):
        d, cols, floats = table(c, n, kinds = dict(a = CELL, b = None))
        va, pa, ka = cond_value(c, 'ca', floats)
        inc = d.inc(dict(a = va)); exc = d.exc(dict(a = va))
        check_partition(c, d, cols, n, inc, exc, lambda i: pa(cols['a'][i]))
    return h

CALLABLES = [('a-is-none', lambda a: a is None, lambda a, b: a is None),
             ('rid-parity-nonbool', lambda rid: rid % 2, lambda a, b, rid = None: None),
             ('b-is-str', lambda b, **kw: isinstance(b, str), lambda a, b: isinstance(b, str)),
             ('always', lambda: True, lambda a, b: True), ('never', lambda a, b: 0, lambda a, b: False)]
def h_callable(n):
    def h(c):
        d, cols, floats = table(c, n, kinds = dict(a = ['none', 'int', 'str'], b = ['int', 'str']), strs = ('a',))
        k = c.choice('fn', len(CALLABLES)); name, f, ref = CALLABLES[k]
        inc = d.inc(f); exc = d.exc(f)
        if name == 'rid-parity-nonbool': pred = lambda i: i % 2 == 1
        else: pred = lambda i: ref(cols['a'][i], cols['b'][i])
        check_partition(c, d, cols, n, inc, exc, pred)
    return h

def h_identity(n):
    def h(c):
        d, cols, floats = table(c, n, kinds = dict(a = CELL, b = None))
        r = d.inc(); e = d.exc()
        c.check('inc-with-no-condition-is-identity', list(r['rid']) == list(range(n)) and list(r.keys()) == ['a', 'b', 'rid'] and all(r[k][i] is cols[k][i] for k in 'ab' for i in range(n)))
        c.check('result-is-a-new-table', r is not d)
    return h

REGEX_NS = REGEX + [re.compile('[0-9n]')]
NS_POOL = [None, 1, 20, 2.5, float('nan'), 'a', 'B1', 'n']
def h_regex_nonstring(n):
    """a regex condition selects string cells only: cells that are not strings (None, ints, floats, NaN - whose str() would match the last regex) never satisfy it;
    the same rows through the keyword, the dict-filter and find_ spellings"""
    def h(c):
        d, cols, floats = table(c, n, pool_cells = True, kinds = dict(a = CELL, b = None), pool = NS_POOL)
        rx = c.pick('rx', REGEX_NS)
        pred = lambda i: isinstance(cols['a'][i], str) and rx.search(cols['a'][i]) is not None
        check_partition(c, d, cols, n, d.inc(a = rx), d.exc(a = rx), pred)
        check_partition(c, d, cols, n, d.inc(dict(a = rx)), d.exc(dict(a = rx)), pred)
        sel = [i for i in range(n) if pred(i)]
        try: got = d.find_rid(a = rx); raised = None
        except ValueError: got = None; raised = 'ValueError'
        c.check('find-agrees-with-inc-on-regex', (raised is None and got == sel[0]) if len(sel) == 1 else raised == 'ValueError')
    return h

FIND_POOL = [None, 1, '1', 'a', 'None']            # values that print alike but differ (1 / '1', None / 'None') are different values
def h_find(n, mode = 'kw'):
    def h(c):
        d, cols, floats = table(c, n, pool_cells = True, pool = FIND_POOL)
        v = c.pick('v', [None, 1, '1', 'a', 'zz'])
        sel = [i for i in range(n) if (cols['a'][i] is None if v is None else cols['a'][i] == v and cols['a'][i] is not None)]
        vals = []
        for i in sel:
            if not any(cols['b'][i] is x or (cols['b'][i] == x and type(cols['b'][i]) == type(x)) for x in vals): vals.append(cols['b'][i])
        try:
            if mode == 'kw': got = d.find_b(a = v)
            elif mode == 'dict': got = d.find_b(dict(a = v))
            else: got = d.find_b((lambda a: a is None) if v is None else (lambda a: a is not None and a == v))
            raised = None
        except ValueError as e:
            got = None; raised = 'ValueError'
        if len(vals) == 1:
            c.check('find-returns-the-unique-value', raised is None and (got is vals[0] or got == vals[0]))
        else:
            c.check('find-raises-when-none-or-several', raised == 'ValueError')
    return h

def obligations(tier):
    q = tier == 'quick'; N = 3 if q else 4
    obs = []
    kinds = ['value', 'list1', 'list2', 'none', 'nan', 'regex']
    for n in range(0, N + 1):
        for i, k in enumerate(kinds):
            obs.append(Ob('keyword.%d.%s' % (n, k), h_keyword(n, False, V.STRS if k == 'regex' else ('a', 'B')), setup = setup, pins = {'ca.ckind': i}, budget_s = 300 if n < 4 else 1200,
                          desc = 'inc/exc(a=<%s>) partition a %d-row table in order, keep columns; inc idempotent' % (k, n)))
    for n in range(0, 2 if q else 3):
        for i, k in enumerate(kinds):
            for j, k2 in enumerate(kinds):
                if n < 1 and j: continue
                obs.append(Ob('conjunction.%d.%s.%s' % (n, k, k2 if n >= 1 else 'any'), h_keyword(n, True, ('a', 'B', 'ab') if 'regex' in (k, k2) else ('a', 'B')), setup = setup, pins = {'ca.ckind': i, 'cb.ckind': j} if n >= 1 else {'ca.ckind': i},
                              budget_s = 300 if n < 2 else 2400, desc = 'inc/exc(a=<%s>, b=<%s>): conjunction of two column conditions, %d rows' % (k, k2 if n >= 1 else 'any', n)))
    for n in range(0, N + 1):
        obs.append(Ob('dict-filter.%d' % n, h_dictfilter(n), setup = setup, budget_s = 400, desc = 'inc/exc(dict(a=cond)), %d rows' % n))
        for i, (nm, _, _) in enumerate(CALLABLES):
            obs.append(Ob('callable.%d.%s' % (n, nm), h_callable(n), setup = setup, pins = {'fn': i}, budget_s = 400, desc = 'inc/exc(single callable %s), %d rows' % (nm, n)))
        obs.append(Ob('no-condition.%d' % n, h_identity(n), setup = setup, desc = 'inc() is the identity, %d rows' % n))
        if n <= 2 or not q: obs.append(Ob('find.%d' % n, h_find(n), setup = setup, budget_s = 300 if n < 3 else 2400, desc = 'find_b(a=v) returns the unique value or raises, %d rows' % n))
        if n <= 2:
            for mode in ('dict', 'callable'): obs.append(Ob('find.%s.%d' % (mode, n), h_find(n, mode), setup = setup, budget_s = 300, desc = 'find_b(<the condition a == v spelt as a %s>) returns the unique value among the rows inc selects or raises, %d rows' % (mode, n)))
        if 1 <= n <= 2:
            for how in ('dict+kw', 'dict+dict'): obs.append(Ob('split-conjunction.%s.%d' % (how, n), h_split_conjunction(n, how), setup = setup, budget_s = 300, desc = 'inc/exc(%s): the conditions form one conjunction, %d rows' % ('dict(a=..), b=..' if how == 'dict+kw' else 'dict(a=..), dict(b=..)', n)))
        if n <= 3: obs.append(Ob('regex.non-string-cells.%d' % n, h_regex_nonstring(n), setup = setup, budget_s = 300, desc = 'a regex condition never selects a cell that is not a string (pool incl. ints, floats, NaN, None whose str() would match), keyword / dict / find_ spellings, %d rows' % n))
    return obs
