"""bin/check <ID> [--tier quick|thorough] [--only substr ...] [--replay file] [--jobs n]"""
import sys, os, argparse, warnings
warnings.filterwarnings('ignore')

def main():
    ap = argparse.ArgumentParser()
    ap.add_argument('pid'); ap.add_argument('--tier', default = os.environ.get('VERIF_TIER', 'quick'), choices = ['quick', 'thorough'])
    ap.add_argument('--only', nargs = '*'); ap.add_argument('--replay'); ap.add_argument('--conformance'); ap.add_argument('--jobs', type = int)
    ap.add_argument('--quiet', action = 'store_true'); ap.add_argument('--list', action = 'store_true')
    a = ap.parse_args()
    from vf import runner
    pid = a.pid.upper()
    if a.replay: return runner.do_replay(pid, a.replay, a.quiet, a.tier)
    if a.conformance: return runner.do_conformance(pid, a.conformance, a.tier)
    if a.list:
        for o in runner.load_prop(pid).obligations(a.tier): print(o.id, '|', o.engine, '|', o.budget_s, '|', o.desc)
        return 0
    return runner.main(pid, a.tier, jobs = a.jobs, only = a.only)

if __name__ == '__main__':
    sys.exit(main())
