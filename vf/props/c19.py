"""C19 container lifting maps leaf-wise, preserves shape, and is schedule independent."""
import itertools, asyncio
from vf.runner import Ob
from vf.symx import core, shims, ops as X

FUNCS = ['pyg_base._loop:loops.wrapped', 'pyg_base._loop:loops._wrapped', 'pyg_base._loop:_item_by_key', 'pyg_base._loop:_item_by_i', 'pyg_base._dict:loop', 'pyg_base._zip:zipper',
         'pyg_base._zip:lens', 'pyg_base._loop:len0', 'pyg_base._as_list:as_list', 'pyg_base._as_list:as_tuple', 'pyg_base._waiter:waiter',
         'pyg_base._txt:lower', 'pyg_base._txt:upper', 'pyg_base._txt:strip', 'pyg_base._txt:proper', 'pyg_base._txt:replace', 'pyg_base._txt:split', 'pyg_base._as_float:as_float']
BOUNDS = dict(structures = 'every nesting of lists, tuples and dicts (keys a, b) up to depth 2 (thorough 3) with 0..2 children per container, chosen by symbolic selectors; leaves arbitrary ints',
              companions = 'scalar | same shape | other shape (a flat list of another length, a dict with other keys), passed positionally or by keyword',
              zipper = '1..3 operands, each a scalar or a sequence of length 0..3 of arbitrary ints', waiter = 'structures with up to 3 awaitables (thorough 4) under EVERY completion order (order = symbolic selector)',
              library = 'lower, upper, strip, proper, replace, split, f12, as_float on nested structures with leaves from a string pool')
OUTSIDE = ['pandas / numpy containers (C03, C08)', 'companions of another length whose own elements have the matching length (the code recurses into them; the statement calls that case broadcast)',
           'more than 4 awaitables (statement: 6)', 'containers wider than 2']
ASSUMPTIONS = ['the lifted test function returns a record of the leaf and its companion, so the whole binding is compared', 'awaitables are asyncio futures completed by a driver coroutine in the chosen order on a real event loop']

class Leaf:
    """what the lifted function returns: the leaf it saw and the companion it was given"""
    def __init__(self, a, b): self.a = a; self.b = b

def struct(c, name, depth, leafgen, types = ('list', 'tuple', 'dict'), dkeys = 'ab'):
    k = c.pick(name + '.t', ['leaf'] + list(types)) if depth > 0 else 'leaf'
    if k == 'leaf': return leafgen(name)
    n = c.choice(name + '.n', 3)
    items = [struct(c, '%s.%d' % (name, i), depth - 1, leafgen, types, dkeys) for i in range(n)]
    return items if k == 'list' else tuple(items) if k == 'tuple' else dict(zip(dkeys, items))                 # dkeys = 'ba': keys inserted in an order that is not the sorted one

def is_cont(x): return isinstance(x, (list, tuple, dict))

def expect(x, comp, kw):
    """oracle: same shape and container types; leaf -> Leaf(leaf, matched companion).  A companion container of the same length / keys is
    matched element by element (dicts by key); everything else is passed whole."""
    if isinstance(x, (list, tuple)):
        n = len(x)
        return type(x)(expect(x[i], comp[i] if isinstance(comp, (list, tuple)) and len(comp) == n else comp, kw) for i in range(n))
    if isinstance(x, dict):
        keys = sorted(x.keys())
        return type(x)({k: expect(x[k], comp[k] if isinstance(comp, dict) and sorted(comp.keys()) == keys else comp, kw) for k in x})
    return ('leaf', x, comp)

def matches(res, exp):
    if isinstance(exp, tuple) and len(exp) == 3 and exp[0] == 'leaf':
        return isinstance(res, Leaf) and res.a is exp[1] and same_obj(res.b, exp[2])
    if isinstance(exp, dict): return type(res) is type(exp) and list(res.keys()) == list(exp.keys()) and all(matches(res[k], exp[k]) for k in exp)
    return type(res) is type(exp) and len(res) == len(exp) and all(matches(r, e) for r, e in zip(res, exp))
def same_obj(a, b):
    if a is b: return True
    if is_cont(a) and type(a) is type(b) and len(a) == len(b):
        return all(same_obj(x, y) for x, y in (zip(a, b) if not isinstance(a, dict) else [(a[k], b.get(k)) for k in a]))
    return False

def companion(c, x, kind):
    if kind == 'scalar': return c.int('comp', -9, 9)
    if kind == 'same-shape':
        def cp(v, name):
            if isinstance(v, (list, tuple)): return type(v)(cp(u, '%s.%d' % (name, i)) for i, u in enumerate(v))
            if isinstance(v, dict): return type(v)({k: cp(u, '%s.%s' % (name, k)) for k, u in v.items()})
            return c.int(name, -9, 9)
        return cp(x, 'comp')
    if kind == 'other-list': return [c.int('comp.%d' % i, -9, 9) for i in range(5)]          # length 5: matches no container in the bound
    if kind == 'overlap-dict': return dict(a = c.int('comp.a', -9, 9), zz = c.int('comp.zz', -9, 9))      # as many keys as a 2-key dict, only one in common
    return dict(zz = c.int('comp.zz', -9, 9))                                                 # a dict with other keys

def h_lift(depth, kind, bykw, dkeys = 'ab'):
    def h(c):
        from pyg_base import loop
        f = loop(list, tuple, dict)(lambda a, b = None: Leaf(a, b))
        x = struct(c, 'x', depth, lambda n: c.int(n, -9, 9), dkeys = dkeys)
        comp = companion(c, x, kind)
        if is_cont(x) and depth >= 2: c.cover('nested', any(is_cont(v) for v in (x.values() if isinstance(x, dict) else x)))
        r = f(x, b = comp) if bykw else f(x, comp)
        c.check('same-shape-and-types-leaves-get-their-matched-companion', matches(r, expect(x, comp, bykw)))
    return h

def h_lift_nocomp(depth):
    def h(c):
        from pyg_base import loop
        f = loop(list, tuple, dict)(lambda a: Leaf(a, None))
        x = struct(c, 'x', depth, lambda n: c.int(n, -9, 9))
        c.check('leafwise', matches(f(x), expect(x, None, False)))
    return h

STRS = [' Ab c ', '1.5', 'ab,cd']
LIB = dict(lower = lambda s: s.lower(), upper = lambda s: s.upper(), strip = lambda s: s.strip(), proper = None, replace = None, split = None, as_float = None)
def h_f12_mixed(depth):
    """f12 formats float leaves and leaves everything else alone, whatever equal-valued leaves (1.0 / 1 / True) were formatted before; own reference, not the function itself"""
    def h(c):
        import pyg_base as P
        x = struct(c, 'x', depth, lambda n: c.pick(n, [1.0, 1, True, 'hi']))
        def ref(v):
            if isinstance(v, (list, tuple)): return type(v)(ref(u) for u in v)
            if isinstance(v, dict): return type(v)({k: ref(u) for k, u in v.items()})
            return '%1.2f' % v if type(v) is float else v
        def same(a, b):
            if is_cont(a) or is_cont(b):
                if type(a) is not type(b) or len(a) != len(b): return False
                return all(same(u, v) for u, v in (zip(a, b) if not isinstance(a, dict) else [(a[k], b.get(k)) for k in a]))
            return type(a) is type(b) and a == b
        P.f12([1.0])                                # an earlier call has formatted equal-valued floats
        c.check('f12-formats-exactly-the-float-leaves', same(P.f12(x), ref(x)))
    return h

def h_library(fn, depth):
    def h(c):
        import pyg_base as P
        g = getattr(P, fn)
        x = struct(c, 'x', depth, lambda n: c.pick(n, STRS))
        args = ('b', 'Q') if fn == 'replace' else (',',) if fn == 'split' else ()
        def ref(v):
            if isinstance(v, (list, tuple)): return type(v)(ref(u) for u in v)
            if isinstance(v, dict): return type(v)({k: ref(u) for k, u in v.items()})
            return g(v, *args)                 # the library function on a bare leaf is the reference for lifting
        r = g(x, *args)
        def eqs(a, b):
            if is_cont(a) or is_cont(b):
                if type(a) is not type(b) or len(a) != len(b): return False
                return all(eqs(u, v) for u, v in (zip(a, b) if not isinstance(a, dict) else [(a[k], b.get(k)) for k in a]))
            return a == b or (a != a and b != b)
        c.check('library-function-is-lifted-leafwise', eqs(r, ref(x)))
        if fn in ('lower', 'upper', 'strip') and isinstance(x, str): c.check('leaf-semantics', r == LIB[fn](x))
    return h

def seq(c, name):
    k = c.pick(name + '.kind', ['scalar', 'list', 'tuple'])
    if k == 'scalar': return c.int(name, -9, 9), None
    n = c.choice(name + '.len', 4)
    v = [c.int('%s.%d' % (name, i), -9, 9) for i in range(n)]
    return (v if k == 'list' else tuple(v)), n

def h_zipper(nops):
    def h(c):
        from pyg_base import zipper, lens
        ops = [seq(c, 's%d' % i) for i in range(nops)]
        ls = [1 if n is None else n for v, n in ops]
        big = sorted(set(l for l in ls if l != 1))
        c.cover('mismatch', len(big) > 1) if nops > 1 else None
        try:
            z = list(zipper(*[v for v, n in ops])); raised = False
        except ValueError:
            raised = True
        if len(big) > 1:
            c.check('two-different-lengths-neither-1-raise-ValueError', raised)
            try:
                lens(*[v for v, n in ops]); c.fail('lens-does-not-raise')
            except ValueError: pass
            return
        c.check('no-error-otherwise', not raised)
        n = big[0] if big else 1
        c.check('lens-is-the-common-length', lens(*[[v] if m is None else v for v, m in ops]) == n)
        want = [tuple((v if m is None else (v[0] if m == 1 else v[i])) for v, m in ops) for i in range(n)]
        c.check('zips-equal-lengths-broadcasting-scalars-and-length-1', len(z) == len(want) and all(len(a) == len(b) and all(p is q for p, q in zip(a, b)) for a, b in zip(z, want)))
    return h

def _nx(c, depth):
    kind = c.pick('kind', ['none', 'scalar', 'str', 'struct', 'one-tuple-of-list', 'range', 'dict'])
    return None if kind == 'none' else c.int('x', -9, 9) if kind == 'scalar' else 'ab' if kind == 'str' else range(2) if kind == 'range' else dict(a = 1) if kind == 'dict' else \
        struct(c, 'x', depth, lambda n: c.int(n, -9, 9), types = ('list', 'tuple')) if kind == 'struct' else (struct(c, 'x', depth, lambda n: c.int(n, -9, 9), types = ('list',)),)
def _eqs(a, b):
    if is_cont(a) or is_cont(b): return type(a) is type(b) and len(a) == len(b) and all(_eqs(u, v) for u, v in zip(a, b))
    return a is b or a == b

def h_aslist(depth):
    def h(c):
        from pyg_base import as_list, as_tuple
        x = _nx(c, depth)
        l1 = as_list(x); t1 = as_tuple(x)
        c.check('as_list-returns-a-list', isinstance(l1, list)); c.check('as_tuple-returns-a-tuple', isinstance(t1, tuple))
        c.check('as_list-idempotent', _eqs(as_list(l1), l1))
    return h

def _region(t1): return len(t1) == 1 and isinstance(t1[0], list)
def h_astuple(depth, inside):
    """as_tuple idempotence; known-finding region: as_tuple(x) is a one-element tuple holding a list (it gets unpacked again)"""
    def h(c):
        from pyg_base import as_tuple
        x = _nx(c, depth); t1 = as_tuple(x)
        if _region(t1) != inside: return
        c.cover('reached')
        c.check('as_tuple-idempotent', _eqs(as_tuple(t1), t1))
    return h
def cls_aslist(model, failed):
    return 'as_tuple-of-one-element-tuple-holding-a-list' if any('as_tuple-idempotent' in f for f in failed) else None

def with_futures(c, name, depth, slots):
    """a structure whose leaves are ints or awaitable slots"""
    def leaf(n):
        if len(slots) < slots.cap and c.choice(n + '.fut', 2):
            slots.append(c.int(n + '.res', -9, 9)); return ('slot', len(slots) - 1)
        return c.int(n, -9, 9)
    return struct(c, name, depth, leaf)

class Slots(list):
    cap = 3

def h_waiter(depth, cap):
    def h(c):
        from pyg_base._waiter import waiter
        slots = Slots(); slots.cap = cap
        x = with_futures(c, 'x', depth, slots)
        n = len(slots)
        perms = list(itertools.permutations(range(n)))
        order = perms[c.choice('order', len(perms))] if n else ()
        if is_cont(x) and len(x) >= 2 and not (isinstance(x, tuple) and x[0] == 'slot'): c.cover('several-awaitables', n >= 2)
        async def main():
            loop = asyncio.get_running_loop()
            futs = [loop.create_future() for _ in range(n)]
            def build(v):
                if isinstance(v, tuple) and len(v) == 2 and v[0] == 'slot': return futs[v[1]]
                if isinstance(v, (list, tuple)): return type(v)(build(u) for u in v)
                if isinstance(v, dict): return {k: build(u) for k, u in v.items()}
                return v
            async def driver():
                for i in order:
                    await asyncio.sleep(0)
                    futs[i].set_result(slots[i])
            st = build(x)
            res, _ = await asyncio.gather(waiter(st), driver())
            return res
        res = asyncio.run(main())
        def want(v):
            if isinstance(v, tuple) and len(v) == 2 and v[0] == 'slot': return slots[v[1]]
            if isinstance(v, (list, tuple)): return type(v)(want(u) for u in v)
            if isinstance(v, dict): return {k: want(u) for k, u in v.items()}
            return v
        def eqs(a, b):
            if is_cont(a) or is_cont(b):
                if type(a) is not type(b) or len(a) != len(b): return False
                return all(eqs(u, v) for u, v in (zip(a, b) if not isinstance(a, dict) else [(a[k], b.get(k)) for k in a]))
            return a is b
        c.check('same-structure-with-every-awaitable-replaced-by-its-result-whatever-the-completion-order', eqs(res, want(x)))
    return h

def obligations(tier):
    q = tier == 'quick'; D = 2 if q else 3
    obs = []
    tops = ['leaf', 'list', 'tuple', 'dict']
    for kind in ['scalar', 'same-shape', 'other-list', 'other-dict', 'overlap-dict']:
        for bykw in (False, True):
            for i, t in enumerate(tops):
                obs.append(Ob('lift.%s.%s.%s' % (kind, 'kw' if bykw else 'pos', t), h_lift(D if kind != 'same-shape' or q else D, kind, bykw), pins = {'x.t': i}, budget_s = 300 if q else 2400,
                              desc = 'loop(list,tuple,dict)(f)(x, companion): %s companion passed %s, x a %s of depth <= %d' % (kind, 'by keyword' if bykw else 'positionally', t, D)))
    for kind in ['scalar', 'same-shape']:
        for bykw in (False, True):
            obs.append(Ob('lift.dict-key-order.%s.%s' % (kind, 'kw' if bykw else 'pos'), h_lift(2, kind, bykw, dkeys = 'ba'), pins = {'x.t': 3}, budget_s = 300,
                          desc = 'x a dict (possibly of dicts) whose keys were inserted in non-sorted order: the result keeps the insertion order of x'))
    for i, t in enumerate(tops):
        obs.append(Ob('lift.no-companion.%s' % t, h_lift_nocomp(D), pins = {'x.t': i}, budget_s = 300 if q else 2400, desc = 'lifted unary function, x a %s' % t))
    for fn in ['lower', 'upper', 'strip', 'proper', 'replace', 'split', 'as_float']:
        obs.append(Ob('library.%s' % fn, h_library(fn, 2), budget_s = 300, desc = '%s on nested structures == the function on each leaf' % fn))
    obs.append(Ob('library.f12.equal-valued-leaves', h_f12_mixed(1), budget_s = 300, desc = 'f12 on containers holding 1.0 / 1 / True / text: exactly the float leaves are formatted'))
    for n in (1, 2, 3):
        obs.append(Ob('zipper.%d' % n, h_zipper(n), budget_s = 300, desc = 'zipper / lens on %d operands' % n))
    obs.append(Ob('as_list.idempotent', h_aslist(2), budget_s = 300, desc = 'as_list is an idempotent normaliser; result types'))
    obs.append(Ob('as_tuple.idempotent', h_astuple(2, False), budget_s = 300, desc = 'as_tuple is idempotent (outside the known region: results that are a one-element tuple holding a list)'))
    obs.append(Ob('known.as_tuple-of-one-element-tuple-holding-a-list', h_astuple(2, True), classify = cls_aslist, budget_s = 300, desc = 'as_tuple idempotence inside the known-finding region'))
    for i, t in enumerate(tops):
        obs.append(Ob('waiter.%s' % t, h_waiter(2 if q else 3, 3 if q else 4), pins = {'x.t': i}, budget_s = 300 if q else 2400, desc = 'waiter on a %s with awaitables completing in every order' % t))
    return obs
