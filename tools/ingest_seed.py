#!/usr/bin/env python3
"""usage: tools/ingest_seed.py <outdir> <PID> <letter> <round>: confirms a sub-agent's change with tools/verify_seed.sh and, when confirmed,
stores it as seeded/<PID><letter>/{patch.diff,demo.py,meta.json} (detected_by is filled in later by tools/seed_sweep.py)."""
import json, os, subprocess, sys, shutil
ROOT = os.path.dirname(os.path.dirname(os.path.abspath(__file__)))
out, pid, letter, rnd = sys.argv[1:5]
patch, demo, summ = (os.path.join(out, '%s.%s' % (pid, x)) for x in ('patch.diff', 'demo.py', 'summary.json'))
res = os.path.join(out, '%s.verify.json' % pid)
subprocess.run([os.path.join(ROOT, 'tools', 'verify_seed.sh'), patch, demo, res])
v = json.load(open(res))
if not v.get('ok'): sys.exit('%s NOT CONFIRMED: %s' % (pid, v))
s = json.load(open(summ)); sid = pid + letter; d = os.path.join(ROOT, 'seeded', sid); os.makedirs(d, exist_ok = True)
shutil.copy(patch, os.path.join(d, 'patch.diff')); shutil.copy(demo, os.path.join(d, 'demo.py'))
meta = dict(id = sid, breaks_property = pid, round = int(rnd), summary = s.get('summary'), needs_to_manifest = s.get('needs_to_manifest'), clause_violated = s.get('clause_violated'),
            author = 'independent sub-agent (round %s) given only the property text and a scratch worktree of /repo HEAD' % rnd,
            confirmed_by_me = dict(ran = 'tools/verify_seed.sh patch.diff demo.py: scratch worktree of /repo HEAD outside /repo and /verif; demo on pristine tree; git apply; demo on patched tree; full pytest baseline command with junit and comparison against BASELINE.json stable_pass; worktree removed',
                                   demo_exit_pristine = v['demo_pristine_exit'], demo_exit_patched = v['demo_patched_exit'], baseline_tests_now_failing = v['baseline_tests_now_failing'], tests_passed = v['n_passed'], ok = True))
json.dump(meta, open(os.path.join(d, 'meta.json'), 'w'), indent = 1); print(sid, 'stored')
