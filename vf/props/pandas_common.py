"""shared setup for the pandas-backed properties (C03 C08 C12 C13): install the minipd model into the modules under test."""
import datetime as _rdt
from vf import minipd
from vf.symx import core, shims
from .dates_common import setup_dates

def setup_pandas():
    setup_dates()
    import pyg_base._pandas as P, pyg_base._types as T, pyg_base._loop as L, pyg_base._dates as D, pyg_base._reducer as R
    npx = minipd.NPX()
    for m in (P, T, L, D):
        m.pd = minipd.pd
    P.np = npx; T.np = npx; L.np = npx
    from vf.symx import rewrite
    shims.patch(P, datetime = shims.dtmod, set = rewrite.sym_set)
    return P

def P():
    import pyg_base._pandas as P_
    return P_

def mkseries(c, values, labels):
    """a Series in the world of the current mode: minipd under symbolic execution, real pandas in a concrete replay"""
    if c.mode == 'sym': return minipd.Series(list(values), list(labels))
    import pandas as rpd
    return rpd.Series([float(v) if v is not None else v for v in values], rpd.DatetimeIndex(list(labels)), dtype = float)

def rows(s):
    return minipd.rows(s)

def sorted_stamps(c, name, n, lo = None, hi = None, intraday = False, gap_days = 40):
    """n strictly increasing timestamps: t0 anywhere, increments symbolic"""
    out = []
    t = c.datetime(name + '0', us_step = 3600 * 10**6) if intraday else c.day(name + '0')
    td = shims.shim_timedelta if c.mode == 'sym' else _rdt.timedelta
    for i in range(n):
        if i:
            if intraday: t = t + td(hours = c.int('%s.gap%d' % (name, i), 1, 60))
            else: t = t + td(days = c.int('%s.gap%d' % (name, i), 1, gap_days))
        out.append(t)
    return out

def value(c, name, nan = True):
    return c.float(name, allow = (core.FIN, core.NAN) if nan else (core.FIN,), halves = 40)

def feq(a, b):
    """cell equality, NaN == NaN"""
    from vf.symx import ops as X
    from .values import is_nan
    return X.Or(a == b, X.And(is_nan(a), is_nan(b)))
