"""shared pieces for the date properties (C04 C05 C09 C10): shim installation, oracles, theory gate."""
import datetime as _rdt, z3
from vf.symx import core, shims, ops as X
from vf.symx.core import SymInt, SymDatetime, mkint, mkbool, zi, zb, US_DAY, ORD_MIN, ORD_MAX

WIDE_LO = ORD_MIN - 130 * 366      # single-part bumps are proved on a wider range so that compound tenors compose
WIDE_HI = ORD_MAX + 130 * 366

def setup_dates():
    import pyg_base._dates as D
    shims.patch(D, datetime = shims.dtmod, int = shims.shim_int)
    return D

def tenor(c, n, unit, sign = ''):
    """the period string for n units: a template digit group in symbolic mode, the real digits in concrete mode"""
    if c.mode == 'sym' and isinstance(n, SymInt):
        return sign + shims.template(n) + unit
    return sign + str(n) + unit

def key(t):
    """microseconds since ordinal 0 (works for proxies and real datetimes)"""
    if isinstance(t, SymDatetime): return mkint(t.o * US_DAY + t.us)
    return t.toordinal() * US_DAY + core.tod_us(t)

def wdcount(x):
    """number of weekdays (Mon-Fri) with ordinal <= x: closed form, independent of the code's case split.
    ordinal 1 is a Monday."""
    q = (x - 1) // 7; r = (x - 1) % 7
    return 5 * q + X.Min(r + 1, 5)

def roll(o):
    """weekend -> following Monday (ordinal arithmetic)"""
    wd = (o + 6) % 7
    return X.If(wd > 4, o + 7 - wd, o)

def theory_gate():
    """Gregorian theory == CPython datetime.date on every ordinal of the widened range (concrete evaluation of the same formulas)"""
    n = 0
    d = _rdt.date.fromordinal(WIDE_LO)
    one = _rdt.timedelta(1)
    for o in range(WIDE_LO, WIDE_HI + 1):
        if core.dfc_py(d.year, d.month, d.day) != o or not (1 <= d.day <= core.dim_py(d.year, d.month)) or d.weekday() != (o + 6) % 7:
            return False, dict(mismatch = str(d))
        n += 1; d = d + one
    # z3 side: the z3 terms evaluate like the python formulas on a sample of dates
    import random
    rnd = random.Random(1)
    y, m, dd = z3.Ints('y m d')
    f = core.dfc(y, m, dd); g = core.dim(y, m)
    for _ in range(300):
        o = rnd.randrange(WIDE_LO, WIDE_HI); t = _rdt.date.fromordinal(o)
        v = z3.simplify(z3.substitute(f, (y, z3.IntVal(t.year)), (m, z3.IntVal(t.month)), (dd, z3.IntVal(t.day))))
        w = z3.simplify(z3.substitute(g, (y, z3.IntVal(t.year)), (m, z3.IntVal(t.month))))
        if v.as_long() != o or w.as_long() != core.dim_py(t.year, t.month): return False, dict(mismatch_z3 = str(t))
        n += 1
    return True, dict(comparisons = n, range = [str(_rdt.date.fromordinal(WIDE_LO)), str(_rdt.date.fromordinal(WIDE_HI))])

def civil(c, t):
    """(year, month, day) of a datetime in either mode"""
    return t.year, t.month, t.day

def month_target(y, m, k):
    """(year, month) k months after (y, m)"""
    mm = m + k
    return y + (mm - 1) // 12, 1 + (mm - 1) % 12

def dim(y, m):
    """days in month, dual mode"""
    if isinstance(y, SymInt) or isinstance(m, SymInt): return mkint(core.dim(zi(y), zi(m)))
    return core.dim_py(y, m)

def ord_of(y, m, d):
    """ordinal of civil (y, m, d) by the Gregorian formula (no validity check), dual mode"""
    if any(isinstance(v, SymInt) for v in (y, m, d)): return mkint(core.dfc(zi(y), zi(m), zi(d)))
    return core.dfc_py(y, m, d)

def month_bump_oracle(y, m, d, months):
    """expected ordinal of (y,m,d) moved by `months`: same day of month if it exists, else the excess days roll into the next month"""
    y1, m1 = month_target(y, m, months); ny, nm = month_target(y1, m1, 1); dm = dim(y1, m1)
    return X.If(d <= dm, ord_of(y1, m1, d), ord_of(ny, nm, d - dm)), d > dm, y1 != y

def neighbour_gate():
    """the neighbour lemma used by Ctx.day_both: civil fields of t+i for |i| <= 27 as a case split on t's fields, against CPython"""
    n = 0
    spans = [(_rdt.date(1899, 11, 1), _rdt.date(1905, 3, 1)), (_rdt.date(1999, 1, 1), _rdt.date(2001, 3, 1)), (_rdt.date(2095, 1, 1), _rdt.date(2105, 1, 1)), (_rdt.date(2299, 1, 1), _rdt.date(2300, 3, 1))]
    for a, b in spans:
        t = a
        while t < b:
            y, m, d = t.year, t.month, t.day; dm = core.dim_py(y, m)
            py, pm = (y - 1, 12) if m == 1 else (y, m - 1); pdm = core.dim_py(py, pm)
            ny, nm = (y + 1, 1) if m == 12 else (y, m + 1)
            for i in range(-27, 28):
                if i >= 0: trip = (y, m, d + i) if d + i <= dm else (ny, nm, d + i - dm)
                else: trip = (y, m, d + i) if d + i >= 1 else (py, pm, d + i + pdm)
                u = t + _rdt.timedelta(i)
                if trip != (u.year, u.month, u.day): return False, dict(mismatch = str((t, i)))
                n += 1
            t += _rdt.timedelta(1)
    return True, dict(comparisons = n)
