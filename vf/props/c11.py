"""C11 listby/unlist, groupby/ungroup and pivot/unpivot are lossless regroupings."""
from vf.runner import Ob
from vf.symx import core, shims, ops as X
from . import values as V
from .c02 import setup, keyeq

FUNCS = ['pyg_base._dictable:dictable._listby', 'pyg_base._dictable:dictable.listby', 'pyg_base._dictable:dictable.unlist', 'pyg_base._dictable:dictable.groupby',
         'pyg_base._dictable:dictable.ungroup', 'pyg_base._dictable:dictable.xyz', 'pyg_base._dictable:dictable.unpivot', 'pyg_base._dictable:dictable.concat',
         'pyg_base._sort:sort', 'pyg_base._sort:cmp']
BOUNDS = dict(tables = 'rows 0..3 (thorough 4); columns k (key), j (second key or label), z (payload = concrete row ids)',
              keys = 'key cells: any int; in the mixed obligations None | int | float incl NaN | string 2-pool (duplicates are the solver\'s choice); one or two key columns',
              pivot = 'x = symbolic int key, y = label from a 3-string pool (labels become column names and are hashed, hence pooled), z = row id, aggregation None / len / sum')
OUTSIDE = ['more than 4 rows', 'three or more key columns', 'datetime keys', 'pivot labels that are not strings']
ASSUMPTIONS = ['payload cells are concrete row ids, so regrouped cells are compared as concrete lists', 'floats are extended reals; strings from pools']

def table(c, n, mixed, two = False, labels = False, kname = 'k'):
    from pyg_base import dictable
    kinds = ['none', 'int', 'float', 'str'] if mixed else ['int']
    floats = []
    def cell(name):
        v = V.scalar(c, name, kinds, pool = floats, strs = ['a', 'B']) if mixed else c.int(name + '.i', -4, 4)
        if isinstance(v, (float, core.SymFloat)) and v.__class__ is float: floats.append(v)
        return v
    cols = dict(k = [cell('k%d' % i) for i in range(n)])
    if two: cols['j'] = [c.int('j%d' % i, 0, 1) for i in range(n)]
    if labels: cols['y'] = [c.pick('y%d' % i, ['u', 'ke', 'y']) for i in range(n)]       # labels may collide with (parts of) column names
    if kname != 'k': cols = {(kname if k == 'k' else k): v for k, v in cols.items()}
    cols['z'] = list(range(n))
    return dictable({k: list(v) for k, v in cols.items()}), cols

def same_key(cols, by, i, j): return X.And([keyeq(cols[b][i], cols[b][j]) for b in by])

def groups(cols, by, n):
    """oracle: partition of the row ids by key equality, in first-occurrence order (forks per comparison)"""
    out = []
    for i in range(n):
        for g in out:
            if same_key(cols, by, g[0], i): g.append(i); break
        else: out.append([i])
    return out

def unchanged(d, cols): return list(d.keys()) == list(cols.keys()) and all(len(d[k]) == len(cols[k]) and all(a is b for a, b in zip(d[k], cols[k])) for k in cols)

def h_listby(n, mixed, two, rev = False):
    def h(c):
        import pyg_base._sort as S
        d, cols = table(c, n, mixed, two); by = (['j', 'k'] if rev else ['k', 'j']) if two else ['k']
        gs = groups(cols, by, n)
        c.cover('duplicate-keys', len(gs) < n) if n >= 2 else None
        r = d.listby(*by)
        c.check('one-row-per-distinct-key', len(r) == len(gs))
        got = [list(x) for x in r['z']] if len(r) else []
        c.check('cells-list-the-key-s-values-in-original-row-order', sorted(got) == sorted(gs))
        for p in range(len(r)):
            ids = list(r['z'][p])
            for b in by: c.check('key-cell-is-the-group-s-key', keyeq(r[b][p], cols[b][ids[0]]))
        for p in range(len(r) - 1):
            c.check('rows-sorted-by-key', S.cmp(tuple(r[b][p] for b in by), tuple(r[b][p + 1] for b in by)) < 0)
        u = r.unlist()
        c.check('unlist-returns-a-table', type(u) is type(d))
        if type(u) is not type(d): return
        zs = list(u['z']) if len(u) else []
        c.check('unlist-restores-all-rows', sorted(zs) == list(range(n)) and (n == 0 or set(u.keys()) == set(cols.keys())))
        for p in range(len(zs) - 1):
            o = S.cmp(tuple(cols[b][zs[p]] for b in by), tuple(cols[b][zs[p + 1]] for b in by))
            c.check('unlist-is-the-stable-sort-by-key', o < 0 or (o == 0 and zs[p] < zs[p + 1]))
        for p, i in enumerate(zs):
            for b in by: c.check('unlist-carries-the-cells', keyeq(u[b][p], cols[b][i]))
        c.check('operand-unchanged', unchanged(d, cols))
    return h

def h_groupby(n, mixed):
    def h(c):
        from pyg_base import dictable
        d, cols = table(c, n, mixed, True); by = ['k']
        gs = groups(cols, by, n)
        r = d.groupby('k')
        if n == 0:
            c.check('empty-stays-empty', len(r) == 0); return
        c.check('one-sub-table-per-distinct-key', len(r) == len(gs) and all(isinstance(g, dictable) for g in r['grp']))
        c.check('sizes-add-up', sum(len(g) for g in r['grp']) == n)
        c.check('sub-tables-hold-the-key-s-rows-in-order', sorted(list(g['z']) for g in r['grp']) == sorted(gs) and all(list(g.keys()) == ['j', 'z'] for g in r['grp']))
        for p in range(len(r)):
            g = r['grp'][p]
            for q_, i in enumerate(g['z']): c.check('sub-table-cells', g['j'][q_] is cols['j'][i] and keyeq(r['k'][p], cols['k'][i]))
        u = r.ungroup()
        c.check('ungroup-restores-the-multiset-of-rows', sorted(u['z']) == list(range(n)) and set(u.keys()) == set(cols.keys()))
        for p, i in enumerate(u['z']): c.check('ungroup-carries-the-cells', keyeq(u['k'][p], cols['k'][i]) and u['j'][p] is cols['j'][i])
        c.check('operand-unchanged', unchanged(d, cols))
    return h

AGG = [None, len, sum]
def h_pivot(n, agg):
    def h(c):
        d, cols = table(c, n, False, False, True, kname = 'key'); cols = dict(cols); cols['k'] = cols['key']
        if n == 0: return
        gs = groups(cols, ['k'], n)
        labels = sorted(set(cols['y']))
        r = d.pivot('key', 'y', 'z', AGG[agg]) if AGG[agg] else d.pivot('key', 'y', 'z'); r = r.relabel(key = 'k') if 'k' not in r.keys() else r
        c.check('one-row-per-x-key-and-one-column-per-label', len(r) == len(gs) and sorted(k for k in r.keys() if k != 'k') == labels)
        for p in range(len(r)):
            members = [g for g in gs if keyeq(r['k'][p], cols['k'][g[0]])]
            c.check('x-key-is-one-of-the-groups', len(members) == 1)
            g = members[0]
            for lab in labels:
                ids = [i for i in g if cols['y'][i] == lab]
                want = None if not ids else (ids if AGG[agg] is None else AGG[agg](ids))
                c.check('cell-holds-exactly-the-z-values-of-that-x-and-y', r[lab][p] == want)
        if AGG[agg] is None:
            u = r.relabel(k = 'key').unpivot('key', 'y', 'z').exc(z = None).relabel(key = 'k')
            trip = sorted((u['y'][p], tuple(u['z'][p])) for p in range(len(u)))
            want = sorted((lab, tuple(i for i in g if cols['y'][i] == lab)) for g in gs for lab in labels if any(cols['y'][i] == lab for i in g))
            c.check('unpivot-and-dropping-None-restores-the-x-y-z-rows', trip == want)
            for p in range(len(u)): c.check('unpivot-carries-the-x-key', keyeq(u['k'][p], cols['k'][u['z'][p][0]]))
        c.check('operand-unchanged', unchanged(d, {k: v for k, v in cols.items() if k != 'k'}))
    return h

AGGN = [('len', len), ('last', lambda v: v[-1]), ('first', lambda v: v[0]), ('tuple', tuple)]
def h_pivot_none(n, a):
    """z values that are None take part in the aggregation like any other value"""
    def h(c):
        from pyg_base import dictable
        ks = [c.int('k%d.i' % i, -4, 4) for i in range(n)]; ys = [c.pick('y%d' % i, ['u', 'w']) for i in range(n)]
        zs = [c.pick('z%d' % i, [i + 10, None]) for i in range(n)]
        d = dictable(key = list(ks), y = list(ys), z = list(zs))
        cols = dict(k = ks); gs = groups(cols, ['k'], n); labels = sorted(set(ys)); name, agg = AGGN[a]
        c.cover('a-None-among-duplicates', any(zs[i] is None for g in gs for i in g if sum(1 for j in g if ys[j] == ys[i]) > 1))
        r = d.pivot('key', 'y', 'z', agg)
        c.check('one-row-per-x-key-and-one-column-per-label', len(r) == len(gs) and sorted(k for k in r.keys() if k != 'key') == labels)
        for p in range(len(r)):
            members = [g for g in gs if keyeq(r['key'][p], ks[g[0]])]
            c.check('x-key-is-one-of-the-groups', len(members) == 1)
            for lab in labels:
                vals = [zs[i] for i in members[0] if ys[i] == lab]
                c.check('cell-aggregates-exactly-the-z-values-of-that-x-and-y-None-included', r[lab][p] == (agg(vals) if vals else None))
    return h

def obligations(tier):
    q = tier == 'quick'; N = 3 if q else 4
    obs = []
    for n in range(2, N + 1):
        for a, (nm, _) in enumerate(AGGN):
            obs.append(Ob('pivot.none-z.%d.%s' % (n, nm), h_pivot_none(n, a), setup = setup, budget_s = 300 if n < 4 else 1500, desc = 'pivot of %d rows whose z may be None, aggregation %s: None values are aggregated like any other' % (n, nm)))
    for n in range(N + 1):
        obs.append(Ob('listby.int.%d' % n, h_listby(n, False, False), setup = setup, budget_s = 300 if n < 4 else 1500, desc = 'listby/unlist on %d rows, int key' % n))
        obs.append(Ob('listby.two-keys.%d' % n, h_listby(n, False, True), setup = setup, budget_s = 300 if n < 4 else 1500, desc = 'listby/unlist on %d rows, two key columns' % n))
        if n >= 2: obs.append(Ob('listby.two-keys-reversed.%d' % n, h_listby(n, False, True, True), setup = setup, budget_s = 300 if n < 4 else 1500, desc = 'listby/unlist on %d rows, two key columns given in the reverse of the column order' % n))
        obs.append(Ob('groupby.int.%d' % n, h_groupby(n, False), setup = setup, budget_s = 300 if n < 4 else 1500, desc = 'groupby/ungroup on %d rows, int key' % n))
        for a in range(3):
            if n: obs.append(Ob('pivot.%d.agg%d' % (n, a), h_pivot(n, a), setup = setup, budget_s = 300 if n < 4 else 1500, desc = 'pivot/unpivot on %d rows, aggregation %s' % (n, ['none', 'len', 'sum'][a])))
    for n in range(1, (N if q else N) + 1):
        kinds = ['none', 'int', 'float', 'str']
        for i, k0 in enumerate(kinds):
            if n >= 3:
                for j, k1 in enumerate(kinds):
                    obs.append(Ob('listby.mixed.%d.%s-%s' % (n, k0, k1), h_listby(n, True, False), setup = setup, pins = {'k0.kind': i, 'k1.kind': j}, budget_s = 300 if n < 4 else 1500,
                                  desc = 'listby/unlist on %d rows, mixed-type key column (first cells %s, %s)' % (n, k0, k1)))
            else:
                obs.append(Ob('listby.mixed.%d.%s' % (n, k0), h_listby(n, True, False), setup = setup, pins = {'k0.kind': i}, budget_s = 300, desc = 'listby/unlist on %d rows, mixed-type key column (first cell %s)' % (n, k0)))
            if n <= 2 or not q: obs.append(Ob('groupby.mixed.%d.%s' % (n, k0), h_groupby(n, True), setup = setup, pins = {'k0.kind': i}, budget_s = 300 if n < 3 else 1500, desc = 'groupby/ungroup, mixed-type key column, %d rows' % n))
    return obs
