"""engine A: CrossHair 0.0.110 (symbolic execution of Python with z3), one process per obligation.

An obligation is a function `check_x(...)` of a harness module whose PEP-316 docstring states `post: _` (the function calls the
real pyg_base API and returns whether the property held), plus a reachability twin `reach_x` whose postcondition must be violated.
Verdicts: 'Confirmed over all paths' -> proved within the harness' stated argument bounds; a counterexample is replayed by calling the
same function on the printed arguments in a plain interpreter (no CrossHair); anything else is inconclusive."""
import os, re, subprocess, sys, time, importlib

ROOT = os.path.dirname(os.path.dirname(os.path.abspath(__file__)))
CROSSHAIR = os.path.join(os.path.dirname(sys.executable), 'crosshair')

def _run(target, budget, seed):
    env = dict(os.environ); env['PYTHONPATH'] = ROOT + os.pathsep + env.get('PYTHONPATH', ''); env['VF_CHX'] = '1'; env['PYTHONHASHSEED'] = '0'
    cmd = [CROSSHAIR, 'check', '--report_all', '--per_condition_timeout', str(budget), '--per_path_timeout', str(max(5, budget // 4)), target]
    t0 = time.time()
    try:
        p = subprocess.run(cmd, capture_output = True, text = True, timeout = budget * 1.5 + 60, env = env, cwd = ROOT)
        out = p.stdout + p.stderr
    except subprocess.TimeoutExpired as e:
        out = 'TIMEOUT'
    return out, time.time() - t0

def parse(out):
    """-> (status, call-string or None)"""
    for line in out.splitlines():
        m = re.search(r': error: (.*) when calling (.*?)(?: \(which returns .*\))?$', line)
        if m: return 'counterexample', m.group(2).strip(), m.group(1)
    if 'Confirmed over all paths' in out: return 'confirmed', None, None
    if 'Unable to meet precondition' in out: return 'no-path', None, None
    if 'Not confirmed' in out: return 'not-confirmed', None, None
    return 'unknown', None, out[-300:]

def run(ob, seed):
    mod = ob.module
    out, wall = _run('%s.%s' % (mod, ob.fn), ob.budget_s, seed)
    status, call, why = parse(out)
    res = dict(engine = 'chx', paths = 1, sym_paths = 1, ok_paths = 1, queries = 1, solver_s = round(wall, 2), checks = 1, failures = [], inconclusive = [], complete = False,
               samples = [dict(decisions = [], model = dict(crosshair = status))], uncovered = [], covered = [], witnesses = {})
    if status == 'counterexample':
        res['failures'].append(dict(label = ob.fn + ': ' + (why or ''), model = dict(call = call)))
        return res
    if status != 'confirmed':
        res['inconclusive'].append('crosshair: %s %s' % (status, (why or '')[:200])); return res
    if ob.twin:
        out2, wall2 = _run('%s.%s' % (mod, ob.twin), min(ob.budget_s, 60), seed)
        st2, call2, _ = parse(out2)
        res['solver_s'] = round(wall + wall2, 2); res['queries'] = 2
        if st2 != 'counterexample':
            res['uncovered'] = ['reachability twin %s not violated (%s)' % (ob.twin, st2)]; res['complete'] = True; return res
        res['covered'] = [ob.twin]; res['samples'].append(dict(decisions = [], model = dict(reachability_witness = call2)))
    res['complete'] = True
    return res

def replay(ob, rec):
    """call the harness function on the counterexample's arguments in this plain interpreter; a false / raising result = reproduced"""
    os.environ.pop('VF_CHX', None)
    m = importlib.import_module(ob.module)
    ns = dict(vars(m)); ns.update(nan = float('nan'), inf = float('inf'))
    try:
        r = eval(rec['model']['call'], ns)
    except Exception as e:
        return ['raised %s: %s' % (type(e).__name__, str(e)[:100])]
    return [] if r is True else ['%s returned %r' % (ob.fn, r)]
