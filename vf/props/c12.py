"""C12 df_fillna/nona fill or drop exactly the missing cells, arrays and pandas alike."""
import datetime as _rdt
from vf.runner import Ob
from vf import minipd
from vf.symx import core, shims, ops as X
from .pandas_common import *
from . import values as V

FUNCS = ['pyg_base._pandas:_df_fillna', 'pyg_base._pandas:df_fillna', 'pyg_base._pandas:_nona', 'pyg_base._pandas:nona', 'pyg_base._types:is_series', 'pyg_base._types:is_arr']
BOUNDS = dict(vectors = 'float Series and 1-d arrays of length 0..4 (thorough 5): which cells are NaN and the values of the others are symbolic (so leading, trailing, interior runs, all-NaN are solver cases)',
              methods = 'ffill, bfill, a symbolic numeric constant, nona, fnna, ffill_na, ffill_0 and every ordered pair of them', limit = '{None, 1, 2} for ffill / bfill')
OUTSIDE = ['2-d frames and axis (no DataFrame model)', 'interpolation methods', 'limit with a numeric method (pandas fills the first `limit` NaNs; the statement is silent)', 'vectors longer than 5']
ASSUMPTIONS = ['pandas replaced by the minipd model (ffill/bfill/fillna with limit, last_valid_index, masks, label slices), validated against the real pandas on all NaN patterns of length <= 3 x limits each run',
               'arrays are modelled by a list-backed stand-in for ndarray; floats are extended reals']

def vec(c, n):
    ts = sorted_stamps(c, 't', n, gap_days = 3)
    vs = [value(c, 'v%d' % i) for i in range(n)]
    return ts, vs

def isn(v): return V.is_nan(v)

def apply(m, cells, limit, const):
    """oracle on a list of (stamp, value): returns the new list"""
    n = len(cells)
    if m in ('ffill', 'bfill'):
        out = []
        idx = range(n) if m == 'ffill' else range(n - 1, -1, -1)
        last = None; run = 0; tmp = {}
        for i in idx:
            t, v = cells[i]
            if isn(v):
                run += 1
                tmp[i] = (t, last if (last is not None and (limit is None or run <= limit)) else v)
            else:
                last = v; run = 0; tmp[i] = (t, v)
        return [tmp[i] for i in range(n)]
    if m == 'const': return [(t, const if isn(v) else v) for t, v in cells]
    if m == 'nona': return [(t, v) for t, v in cells if not isn(v)]
    if m == 'fnna':
        k = 0
        while k < n and isn(cells[k][1]): k += 1
        return cells[k:]
    if m in ('ffill_na', 'ffill_0'):
        lastvalid = None
        for i, (t, v) in enumerate(cells):
            if not isn(v): lastvalid = i
        if lastvalid is None: return list(cells)
        filled = apply('ffill', cells, limit, const)
        return [(t, v) if i <= lastvalid else (t, float('nan') if m == 'ffill_na' else 0.0) for i, (t, v) in enumerate(filled)]
    raise ValueError(m)

METHODS = ['ffill', 'bfill', 'const', 'nona', 'fnna', 'ffill_na', 'ffill_0']
def h_fill(n, methods, limit, array):
    def h(c):
        Pm = P()
        ts, vs = vec(c, n); const = c.float('const', allow = (core.FIN,), halves = 40)
        if n: c.cover('a-nan', X.Or([isn(v) for v in vs])); c.cover('a-value', X.Or([X.Not(isn(v)) for v in vs]))
        arg_methods = [const if m == 'const' else m for m in methods]
        if array:
            src = (minipd.Arr(vs) if c.mode == 'sym' else __import__('numpy').array([float(v) for v in vs], dtype = float))
        else:
            src = mkseries(c, vs, ts)
        snap = list(vs)
        r = Pm.df_fillna(src, arg_methods if len(arg_methods) > 1 else arg_methods[0], limit = limit)
        cells = list(zip(ts, vs))
        for m in methods: cells = apply(m, cells, limit, const)
        if array:
            got = list(r); c.check('array-result-equals-the-values-of-the-Series-result', len(got) == len(cells) and all(feq(g, w[1]) for g, w in zip(got, cells)))
            c.check('input-not-modified', len(src) == n and all(feq(a, b) for a, b in zip(list(src), snap)))
        else:
            got = rows(r)
            c.check('fills-or-drops-exactly-the-missing-cells', len(got) == len(cells) and all(g[0] == w[0] and feq(g[1], w[1]) for g, w in zip(got, cells)))
            c.check('input-not-modified', len(rows(src)) == n and all(feq(a[1], b) for a, b in zip(rows(src), snap)))
    return h

def h_nona(n, array):
    def h(c):
        Pm = P()
        ts, vs = vec(c, n)
        src = (minipd.Arr(vs) if c.mode == 'sym' else __import__('numpy').array([float(v) for v in vs], dtype = float)) if array else mkseries(c, vs, ts)
        r = Pm.nona(src)
        want = [(t, v) for t, v in zip(ts, vs) if not isn(v)]
        got = [(None, g) for g in r] if array else rows(r)
        c.check('nona-removes-exactly-the-nan-rows', len(got) == len(want) and all((array or g[0] == w[0]) and feq(g[1], w[1]) for g, w in zip(got, want)))
    return h

def obligations(tier):
    q = tier == 'quick'; N = 4 if q else 5
    S = setup_pandas
    obs = [Ob('gate.minipd-vs-pandas', minipd.gate, engine = 'gate', desc = 'the pandas model equals the real pandas on an exhaustive small grid')]
    for n in range(0, N + 1):
        for m in METHODS:
            for limit in ((None, 1, 2) if m in ('ffill', 'bfill', 'ffill_na', 'ffill_0') else (None,)):
                if q and n > 3 and limit == 2: continue
                obs.append(Ob('fill.%s.limit-%s.%d' % (m, limit, n), h_fill(n, [m], limit, False), setup = S, budget_s = 300 if n < 5 else 1500, desc = 'df_fillna(Series of %d, %s, limit=%s)' % (n, m, limit)))
            if n <= 3 or not q: obs.append(Ob('array.%s.%d' % (m, n), h_fill(n, [m], None, True), setup = S, budget_s = 300, desc = 'df_fillna(1-d array of %d, %s) == values of the Series result, input unchanged' % (n, m)))
        obs.append(Ob('nona.series.%d' % n, h_nona(n, False), setup = S, desc = 'nona(Series of %d)' % n)); obs.append(Ob('nona.array.%d' % n, h_nona(n, True), setup = S, desc = 'nona(array of %d)' % n))
    for m1 in METHODS:
        for m2 in METHODS:
            if m1 == m2: continue
            for n in ((3,) if q else (3, 4)):
                obs.append(Ob('sequence.%s+%s.%d' % (m1, m2, n), h_fill(n, [m1, m2], None, False), setup = S, budget_s = 300, desc = 'method list [%s, %s] applies the methods in sequence (%d rows)' % (m1, m2, n)))
    return obs
