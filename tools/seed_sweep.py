#!/usr/bin/env python3
"""applies every seeded change in turn to /repo, runs the property's check (quick tier), records in seeded/<id>/meta.json which obligations reported a
reproduced violation, and restores /repo.  Usage: tools/seed_sweep.py [--copy] [ids...]
With --copy the change is applied to a scratch worktree of /repo's HEAD (outside /repo and /verif, removed at the end) and the check is pointed at it
(PYG_BASE_REPO / PYTHONPATH), its evidence and replays going to a scratch directory, so that /repo and /verif/evidence stay untouched."""
import json, os, subprocess, sys, glob, re
ROOT = os.path.dirname(os.path.dirname(os.path.abspath(__file__)))
COPY = '--copy' in sys.argv[1:]
argv = [a for a in sys.argv[1:] if a != '--copy']
ids = argv or sorted(os.path.basename(os.path.dirname(p)) for p in glob.glob(os.path.join(ROOT, 'seeded', '*', 'meta.json')))
REPO = '/repo'; ENV = dict(os.environ)
if COPY:
    import tempfile, atexit
    REPO = tempfile.mkdtemp(prefix = 'seedsweep.', dir = '/tmp'); os.rmdir(REPO)
    subprocess.run(['git', '-C', '/repo', 'worktree', 'add', '-q', '--detach', REPO, 'HEAD'], check = True)
    OUTDIR = tempfile.mkdtemp(prefix = 'seedsweep-out.', dir = '/tmp')
    atexit.register(lambda: (subprocess.run(['git', '-C', '/repo', 'worktree', 'remove', '--force', REPO]), subprocess.run(['rm', '-rf', OUTDIR])))
    ENV.update(PYG_BASE_REPO = REPO, PYTHONPATH = os.path.join(REPO, 'src'), VERIF_OUT = OUTDIR)
claimed = {c['property_id'] for c in json.load(open(os.path.join(ROOT, 'MANIFEST.json')))['checks']}
for sid in ids:
    pid = sid[:3]; mp = os.path.join(ROOT, 'seeded', sid, 'meta.json'); meta = json.load(open(mp))
    if pid not in claimed:
        meta['detected_by'] = dict(detected = False, why = 'property %s is not claimed (not applicable)' % pid); json.dump(meta, open(mp, 'w'), indent = 1); print(sid, 'not claimed'); continue
    if subprocess.run(['git', '-C', REPO, 'diff', '--quiet']).returncode: sys.exit('/repo has local changes')
    if subprocess.run(['git', '-C', REPO, 'apply', os.path.join(ROOT, 'seeded', sid, 'patch.diff')]).returncode: print(sid, 'PATCH DOES NOT APPLY'); continue
    try:
        p = subprocess.run([os.path.join(ROOT, 'bin', 'check'), pid, '--tier', 'quick'], capture_output = True, text = True, cwd = ROOT, env = ENV)
    finally:
        subprocess.run(['git', '-C', REPO, 'checkout', '--', '.'])
    viol = re.findall(r'VIOLATION property=\S+ replay=\S+ obligation=(\S+) check=(.*)', p.stdout)
    meta['detected_by'] = dict(detected = bool(viol), exit_code = p.returncode, command = 'bin/check %s --tier quick (with the patch applied to %s)' % (pid, 'a scratch worktree of /repo HEAD, the check pointed at it' if COPY else '/repo'),
                               obligations = sorted(set(o for o, _ in viol))[:12], checks_failed = sorted(set(c for _, c in viol))[:6], repo_head = subprocess.run(['git', '-C', '/repo', 'rev-parse', '--short', 'HEAD'], capture_output = True, text = True).stdout.strip())
    json.dump(meta, open(mp, 'w'), indent = 1)
    print(sid, 'DETECTED' if viol else 'missed', p.returncode, sorted(set(o for o, _ in viol))[:3], flush = True)
