"""CrossHair harness for the ulist part of C16 (ulist hashes its elements: set(orig))."""
from pyg_base._ulist import ulist

def _mk(n, a, b, c):
    if n == 0: return []
    if n == 1: return [a]
    if n == 2: return [a, b]
    return [a, b, c]
def _uniq(xs):
    out = []
    for v in xs:
        if v not in out: out.append(v)
    return out
def _nodup(r): return len(_uniq(list(r))) == len(r)

def check_init(n: int, a: int, b: int, c: int) -> bool:
    """
    pre: 0 <= n <= 3
    post: _
    """
    u = _mk(n, a, b, c); r = ulist(u)
    return list(r) == _uniq(u) and isinstance(r, ulist) and u == _mk(n, a, b, c)
def reach_init(n: int, a: int, b: int, c: int) -> int:
    """
    pre: 0 <= n <= 3
    post: _ != 2
    """
    return len(ulist(_mk(n, a, b, c)))

def check_add_list(n: int, m: int, a: int, b: int, c: int, d: int, e: int, f: int) -> bool:
    """
    pre: 0 <= n <= 3 and 0 <= m <= 3
    post: _
    """
    u = ulist(_mk(n, a, b, c)); x = _mk(m, d, e, f); before = list(u)
    r = u + x; s = u | x
    want = _uniq(before + x)
    return list(r) == want and list(s) == want and isinstance(r, ulist) and isinstance(s, ulist) and _nodup(r) and list(u) == before and x == _mk(m, d, e, f)
def reach_add_list(n: int, m: int, a: int, b: int, c: int, d: int, e: int, f: int) -> int:
    """
    pre: 0 <= n <= 3 and 0 <= m <= 3
    post: _ != 4
    """
    return len(ulist(_mk(n, a, b, c)) + _mk(m, d, e, f))

def check_add_elem(n: int, a: int, b: int, c: int, x: int) -> bool:
    """
    pre: 0 <= n <= 3
    post: _
    """
    u = ulist(_mk(n, a, b, c)); before = list(u)
    r = u + x; s = u | x
    want = before if x in before else before + [x]
    return list(r) == want and list(s) == want and isinstance(r, ulist) and _nodup(r) and list(u) == before and r is not u
def reach_add_elem(n: int, a: int, b: int, c: int, x: int) -> int:
    """
    pre: 0 <= n <= 3
    post: _ != 3
    """
    return len(ulist(_mk(n, a, b, c)) + x)

def check_sub_and(n: int, m: int, a: int, b: int, c: int, d: int, e: int, f: int) -> bool:
    """
    pre: 0 <= n <= 3 and 0 <= m <= 3
    post: _
    """
    u = ulist(_mk(n, a, b, c)); x = _mk(m, d, e, f); before = list(u)
    r = u - x; s = u & x
    return list(r) == [v for v in before if v not in x] and list(s) == [v for v in before if v in x] and isinstance(r, ulist) and isinstance(s, ulist) \
        and list(u) == before and _nodup(r) and _nodup(s)
def reach_sub_and(n: int, m: int, a: int, b: int, c: int, d: int, e: int, f: int) -> int:
    """
    pre: 0 <= n <= 3 and 0 <= m <= 3
    post: _ != 2
    """
    return len(ulist(_mk(n, a, b, c)) & _mk(m, d, e, f))

def check_sub_and_elem(n: int, a: int, b: int, c: int, x: int) -> bool:
    """
    pre: 0 <= n <= 3
    post: _
    """
    u = ulist(_mk(n, a, b, c)); before = list(u)
    r = u - x; s = u & x
    return list(r) == [v for v in before if v != x] and list(s) == ([x] if x in before else []) and isinstance(r, ulist) and isinstance(s, ulist) and list(u) == before
def reach_sub_and_elem(n: int, a: int, b: int, c: int, x: int) -> int:
    """
    pre: 0 <= n <= 3
    post: _ != 1
    """
    return len(ulist(_mk(n, a, b, c)) & x)
