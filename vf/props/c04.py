"""C04 dt() maps every supported (non-string) spelling of an instant to the same datetime."""
import datetime as _rdt
from vf.runner import Ob
from vf.symx import core, shims, ops as X
from vf.symx.core import US_DAY, ORD_MIN, ORD_MAX
from .dates_common import *

FUNCS = ['pyg_base._dates:uk2dt', 'pyg_base._dates:us2dt', 'pyg_base._dates:dt2str', 'pyg_base._dates:_date_format', 'pyg_base._dates:tz_replace', 'pyg_base._dates:dt', 'pyg_base._dates:ymd', 'pyg_base._dates:num2dt', 'pyg_base._dates:_ymd', 'pyg_base._dates:ym', 'pyg_base._dates:month',
         'pyg_base._dates:today', 'pyg_base._dates:dt_bump']
BOUNDS = dict(t = 'every instant of 1900-01-01 .. 2299-12-31 to the microsecond (seconds for the (y,m,d,h,mi,s) spelling)',
              overflow = 'dt(y,m,d): y in [1900,2299], every month in [-36,48], every day in [-400,400]',
              ints = 'every int in (-1500,1500] as offset from a symbolic today, (1500,3000] as a year, excel serials, ordinals and yyyymmdd ints of the whole range')
OUTSIDE = ['every string spelling (ISO, yyyymmdd text, d-m-y, m-d-y, month names, dt(dt2str(t))) and the dialect rejection rule: decided by dateutil.parser + re on a '
           'string, which cannot be made symbolic within reach; with a concrete string nothing is left for a solver to decide',
           'numpy/pandas timestamp inputs (C objects)', 'float ordinals with a day fraction (timedelta(float) rounding)', 'timezones']
ASSUMPTIONS = ['datetime/timedelta proxies over the Gregorian theory (validated against CPython on every ordinal 1770..2430)',
               'the clock (datetime.now) is a symbolic instant']

def setup():
    return setup_dates()
def _D():
    import pyg_base._dates as D
    return D

def h_identity(c):
    D = _D(); t = c.datetime('t')
    c.check('dt(t)==t', key(D.dt(t)) == key(t))
    r = D.ymd(t)
    c.check('ymd-drops-time', X.And(X.ordinal(r) == X.ordinal(t), X.us_of_day(r) == 0))
    d = t.date()
    c.check('dt(date)==midnight', X.And(X.ordinal(D.dt(d)) == X.ordinal(t), X.us_of_day(D.dt(d)) == 0))

def h_parts(c):
    D = _D(); t = c.ymd('t'); y, m, d = t.year, t.month, t.day
    c.cover('month-end', d >= 30)
    c.check('dt(y,m,d)', key(D.dt(y, m, d)) == key(t))
    c.check('dt(y,m)', X.ordinal(D.dt(y, m)) == X.ordinal(t) - d + 1)
    c.check('ymd(y,m,d)', key(D.ymd(y, m, d)) == key(t))
    c.check('dt(d,m,y)-swapped-order', key(D.dt(d, m, y)) == key(t))

def h_parts_time(c):
    D = _D(); t = c.ymd('t'); y, m, d = t.year, t.month, t.day
    hh = c.int('h', 0, 23); mi = c.int('mi', 0, 59); ss = c.int('s', 0, 59)
    r = D.dt(y, m, d, hh, mi, ss)
    c.check('dt(y,m,d,h,mi,s)', key(r) == key(t) + ((hh * 60 + mi) * 60 + ss) * 10**6)
    c.check('ymd(...)-drops-time', key(D.ymd(y, m, d, hh, mi, ss)) == key(t))
    c.check('dt(y,m,d,h)', key(D.dt(y, m, d, hh)) == key(t) + hh * 3600 * 10**6)

def h_yyyymmdd(c):
    D = _D(); t = c.ymd('t'); y, m, d = t.year, t.month, t.day
    n = y * 10000 + m * 100 + d
    c.check('dt(yyyymmdd)', key(D.dt(n)) == key(t))
    c.check('ymd(yyyymmdd)', key(D.ymd(n)) == key(t))

def h_ordinal(c):
    D = _D(); t = c.day('t'); o = X.ordinal(t)
    c.check('dt(ordinal)', key(D.dt(o)) == key(t))
    if o - 693594 > 3000: c.check('dt(excel-serial)', key(D.dt(o - 693594)) == key(t))     # serials <= 3000 are read as offsets / years

def h_overflow(c):
    D = _D(); y = c.int('y', 1900, 2299); m = c.int('m', -36, 48); d = c.int('d', -400, 400)
    c.cover('month-below-1', m < 1); c.cover('month-above-12', m > 12); c.cover('day-below-1', d < 1); c.cover('day-above-31', d > 31)
    r = D.dt(y, m, d)
    y1, m1 = month_target(y, 1, m - 1)
    c.check('first-of-normalised-month-plus-d-1-days', X.And(X.ordinal(r) == ord_of(y1, m1, 1) + d - 1, X.us_of_day(r) == 0))
    c.check('normalised-month-in-range', X.And(m1 >= 1, m1 <= 12, 12 * y1 + m1 == 12 * y + m))
    c.check('dt(y,m)-normalises', X.ordinal(D.dt(y, m)) == ord_of(y1, m1, 1))

def h_bands(c):
    """the numeric heuristics partition the ints: exactly the documented interpretation in each band"""
    D = _D()
    if c.mode == 'sym':
        now = c.datetime('now'); shims.CLOCK['now'] = now
    else:
        now = c.datetime('now')
        class _dtm(_rdt.datetime):
            @classmethod
            def now(cls, tz = None): return now
        import types
        fake = types.ModuleType('datetime'); fake.__dict__.update(_rdt.__dict__); fake.datetime = _dtm
        D.datetime = fake
    try:
        i = c.int('i', -1499, 1500)
        r = D.dt(i)
        c.cover('negative-offset', i < 0)
        c.check('small-int-is-offset-from-today', X.And(X.ordinal(r) == X.ordinal(now) + i, X.us_of_day(r) == 0))
        yr = c.int('yr', 1900, 2299)
        c.check('int-in-(1500,3000]-is-a-year', X.And(X.ordinal(D.dt(yr)) == ord_of(yr, 1, 1), X.us_of_day(D.dt(yr)) == 0))
        c.check('dt(0)-is-today', X.And(X.ordinal(D.dt(0)) == X.ordinal(now), X.us_of_day(D.dt(0)) == 0))
    finally:
        if c.mode != 'sym': D.datetime = _rdt

# ---------------------------------------------------------------- string spellings (template strings + validated parser contract)
_D2 = {}
def setup_str():
    """_dates.py is re-loaded through the AST rewrite (for `t in ('NaT')` etc.) with the proxy datetime, the template-aware int, the parser contract stub
    and shape-only wrappers around its five module-level regexes"""
    setup_dates()
    from vf.symx import rewrite, parser_stub, symstr
    import pyg_base._dates as D0
    extra = dict(datetime = shims.dtmod, int = shims.shim_int, parser = parser_stub.make(shims.shim_datetime))
    D2 = rewrite.load('pyg_base._dates', extra)
    for name in ('period', 'ambiguity', 'iso', 'yyyymm', 'yyyymmm'):
        rx = symstr.Regex(getattr(D0, name)); rx.shape_only = True          # reviewed: character classes, separators and month names only
        setattr(D2, name, rx)
    _D2['D'] = D2

def Ds(c):
    if c.mode == 'sym': return _D2['D']
    import pyg_base._dates as D
    return D

def unpadded(c, t, order, sep):
    """d<sep>m<sep>yyyy without zero padding (the number of digits of day and month is decided by forks)"""
    if c.mode != 'sym':
        a, b = (t.day, t.month) if order == 'dmy' else (t.month, t.day)
        return '%d%s%d%s%04d' % (a, sep, b, sep, t.year)
    from vf.symx.symstr import SymStr, Field
    wd = 1 if t.day < 10 else 2; wm = 1 if t.month < 10 else 2
    fd, fm = Field(t.day, wd, 'd'), Field(t.month, wm, 'm')
    a, b = (fd, fm) if order == 'dmy' else (fm, fd)
    return SymStr([a, sep, b, sep, Field(t.year, 4, 'Y')])

def raises_valueerror(c, label, f):
    try: f()
    except ValueError: return
    c.fail(label)

def h_iso(c):
    D = Ds(c); t = c.datetime('t')
    c.cover('microseconds', t.microsecond != 0)
    c.check('dt(iso-string)==t', key(D.dt(t.isoformat())) == key(t))
    c.check('ymd(iso-string)-drops-the-time', key(D.ymd(t.isoformat())) == X.ordinal(t) * US_DAY)

def h_dt2str(c):
    D = Ds(c); t = c.datetime('t')
    c.cover('midnight', X.us_of_day(t) == 0); c.cover('sub-second-only', X.And(X.us_of_day(t) > 0, X.us_of_day(t) < 10**6))
    c.check('dt(dt2str(t))==t', key(D.dt(D.dt2str(t))) == key(t))

def h_yyyymmdd_text(c):
    D = Ds(c); t = c.ymd('t')
    c.check("dt('yyyymmdd')==t", key(D.dt(t.strftime('%Y%m%d'))) == key(t))

SEPS = ['-', '/', '.', ' ']
def h_dmy(sep, withtime, padded):
    def h(c):
        D = Ds(c); t = c.datetime('t', us_step = 10**6) if withtime else c.ymd('t')
        c.cover('day-13', t.day == 13); c.cover('day-le-12', t.day <= 12)
        if padded:
            uk = t.strftime('%%d%s%%m%s%%Y' % (sep, sep) + (' %H:%M:%S' if withtime else '')); us = t.strftime('%%m%s%%d%s%%Y' % (sep, sep) + (' %H:%M:%S' if withtime else ''))
        else:
            uk = unpadded(c, t, 'dmy', sep); us = unpadded(c, t, 'mdy', sep)
        c.check('uk-dialect-day-month-year==t', key(D.dt(uk)) == key(t))
        c.check('us-dialect-month-day-year==t', key(D.dt(us, dialect = 'US')) == key(t))
        if t.day > 12:
            raises_valueerror(c, 'unambiguous-month-day-string-is-rejected-by-the-uk-dialect', lambda: D.dt(us))
            raises_valueerror(c, 'unambiguous-day-month-string-is-rejected-by-the-us-dialect', lambda: D.dt(uk, dialect = 'US'))
    return h

MONTHNAMES = ['January', 'february', 'Mar', 'April', 'may', 'JUNE', 'Jul', 'august', 'Sep', 'october', 'Nov', 'December']
def h_monthname(c):
    D = Ds(c); t = c.ymd('t')
    mi = c.choice('month', 12); c.assume(t.month == mi + 1)
    s = t.strftime('%d ' + MONTHNAMES[mi] + ' %Y')
    c.check('uk-dialect-month-name-string==t', key(D.dt(s)) == key(t))
    c.check('us-dialect-month-name-string==t', key(D.dt(s, dialect = 'US')) == key(t))

def obligations(tier):
    S = setup
    return [Ob('gate.gregorian-theory', theory_gate, engine = 'gate', desc = 'Gregorian theory vs CPython date'),
            Ob('identity', h_identity, setup = S, desc = 'dt(t)==t, dt(date), ymd drops the time of day'),
            Ob('parts', h_parts, setup = S, budget_s = 300, desc = 'dt(y,m,d), dt(y,m), ymd(y,m,d), dt(d,m,y)'),
            Ob('parts-time', h_parts_time, setup = S, budget_s = 300, desc = 'dt(y,m,d,h,mi,s)'),
            Ob('yyyymmdd', h_yyyymmdd, setup = S, budget_s = 300, desc = 'dt(yyyymmdd int)'),
            Ob('ordinal', h_ordinal, setup = S, desc = 'dt(ordinal), dt(excel serial)'),
            Ob('overflow', h_overflow, setup = S, budget_s = 400, desc = 'dt(y,m,d) with month in [-36,48] and day in [-400,400]'),
            Ob('bands', h_bands, setup = S, budget_s = 300, desc = 'numeric heuristics: offsets from today, years'),
            Ob('gate.parser-contract', __import__('vf.symx.parser_stub', fromlist = ['gate']).gate, engine = 'gate', desc = 'dateutil.parser contract stub vs the real parser on ~25 000 strings'),
            Ob('str.iso', h_iso, setup = setup_str, budget_s = 300, desc = 'dt / ymd of the ISO string, to the microsecond'),
            Ob('str.dt2str', h_dt2str, setup = setup_str, budget_s = 300, desc = 'dt(dt2str(t)) == t, to the microsecond'),
            Ob('str.yyyymmdd', h_yyyymmdd_text, setup = setup_str, budget_s = 300, desc = "dt('yyyymmdd') == t"),
            Ob('str.month-name', h_monthname, setup = setup_str, budget_s = 400, desc = 'day month-name year strings, both dialects')] + \
           [Ob('str.dmy.%s.%s.%s' % ({'-': 'dash', '/': 'slash', '.': 'dot', ' ': 'space'}[sep], 'time' if wt else 'date', 'padded' if pad else 'unpadded'), h_dmy(sep, wt, pad), setup = setup_str, budget_s = 400,
               desc = 'day-month-year (uk) and month-day-year (us) strings with separator %r == t; the other dialect rejects unambiguous strings' % sep)
            for sep in SEPS for wt, pad in ((False, True), (True, True), (False, False))]
