"""C14 eq is a NaN-aware, type-strict equivalence on values, containers and pandas."""
import datetime as _rdt
from vf.runner import Ob
from vf.symx import core, shims, ops as X
from . import values as V
from .dates_common import setup_dates

FUNCS = ['pyg_base._eq:eq', 'pyg_base._eq:_eq_attrs', 'pyg_base._eq:in_']
BOUNDS = dict(scalars = 'None | any bool | any int | any float (NaN objects of same / different identity, +-inf) | string 3-pool | any datetime',
              numpy_pandas = 'a concrete pool of numpy scalars, 1-d / 2-d / empty / object arrays, Series and DataFrames (with NaN cells), chosen by a symbolic index',
              containers = 'list / tuple / dict / dict subclass (string keys a, b) of length 0..2, nesting depth <= 2 for pairs (1 for triples); both operands independent')
OUTSIDE = ['symbolic contents of numpy arrays and pandas objects (C storage: they come from a concrete pool)', 'pandas extension arrays', 'functools.partial operands',
           'containers longer than 2 or deeper than 2']
ASSUMPTIONS = ['floats are extended reals; np.isnan on scalars replaced by a proxy-aware version (arrays still go to numpy)',
               'numpy object arrays built by eq for dict values hold the proxies themselves; np.vectorize / np.all on them run natively']

class MyDict(dict): pass

def setup():
    setup_dates()
    import pyg_base._eq as E
    shims.patch(E, np = shims.NP())

def _E():
    import pyg_base._eq as E
    return E

def pool_np():
    import numpy as np, pandas as pd
    nan = float('nan')
    return [np.float64(1.0), np.int64(1), np.float64('nan'), np.array([1.0, 2.0]), np.array([1.0, nan]), np.array([1, 2]), np.array([[1.0, 2.0]]), np.array([]),
            np.array([1.0]), np.array([1, 'a', None], dtype = object), np.array([[1.0]]),
            pd.Series([1.0, nan], [0, 1]), pd.Series([1.0, nan], [0, 2]), pd.Series([1.0, 2.0], [0, 1]), pd.DataFrame(dict(a = [1.0, nan])), pd.DataFrame(dict(b = [1.0, nan])),
            pd.Series([], dtype = float), pd.Timestamp('2020-01-01'), pd.Series([[1.0, nan], 'a', (nan,)], dtype = object), pd.DataFrame(dict(a = [[nan], 2.0]), dtype = object),
            pd.Series([1, None, 'a'], dtype = object), pd.Series([1, nan, 'a'], dtype = object)]
NPNAMES = ['f64-1', 'i64-1', 'f64-nan', 'arr-12f', 'arr-1nan', 'arr-12i', 'arr-2d', 'arr-empty', 'arr-1', 'arr-obj', 'arr-1x1', 'ser-1nan', 'ser-1nan-otheridx', 'ser-12', 'df-a', 'df-b', 'ser-empty', 'ts', 'ser-obj-cells', 'df-obj-cells', 'ser-obj-none', 'ser-obj-nan']

SC = ['none', 'bool', 'int', 'float', 'str', 'dt']
def gen(c, name, depth, maxlen, floats, kinds = SC, with_np = True):
    shapes = ['scalar', 'list', 'tuple', 'dict', 'mydict'] if depth > 0 else ['scalar']
    if with_np: shapes = shapes + ['np']
    k = c.pick(name + '.shape', shapes)
    if k == 'np': return pool_np()[c.choice(name + '.np', len(NPNAMES))]
    if k == 'scalar':
        v = V.scalar(c, name, kinds, pool = floats, strs = ['a', 'B', ''])
        if isinstance(v, (float, core.SymFloat)) and v.__class__ is float: floats.append(v)
        return v
    n = c.choice(name + '.len', maxlen + 1)
    items = [gen(c, '%s.%d' % (name, i), depth - 1, maxlen, floats, kinds, with_np) for i in range(n)]
    if k == 'list': return items
    if k == 'tuple': return tuple(items)
    return (dict if k == 'dict' else MyDict)(zip('ab', items))

def shape(x):
    """container skeleton: eq must be False whenever the skeletons differ"""
    import numpy as np, pandas as pd
    if isinstance(x, (list, tuple)): return (type(x).__name__, tuple(shape(i) for i in x))
    if isinstance(x, dict): return (type(x).__name__, tuple((k, shape(v)) for k, v in sorted(x.items())))
    if isinstance(x, np.ndarray): return ('ndarray', x.shape)
    if isinstance(x, (pd.Series, pd.DataFrame)): return (type(x).__name__, x.shape)
    return 'scalar'

def copy_fresh_nan(c, x, name = 'cp'):
    """structural copy in which every NaN float is a different object"""
    import numpy as np, pandas as pd, copy
    if isinstance(x, list): return [copy_fresh_nan(c, i, name) for i in x]
    if isinstance(x, tuple): return tuple(copy_fresh_nan(c, i, name) for i in x)
    if isinstance(x, dict): return type(x)((k, copy_fresh_nan(c, v, name)) for k, v in x.items())
    if isinstance(x, np.ndarray) and x.dtype == object:
        y = x.copy()
        for idx in np.ndindex(*x.shape): y[idx] = copy_fresh_nan(c, x[idx], name)
        return y
    if isinstance(x, pd.Series) and x.dtype == object: return pd.Series([copy_fresh_nan(c, v, name) for v in x.values], x.index.copy(), dtype = object)
    if isinstance(x, pd.DataFrame) and any(t == object for t in x.dtypes):
        return pd.DataFrame({col: [copy_fresh_nan(c, v, name) for v in x[col].values] for col in x.columns}, index = x.index.copy(), dtype = object)
    if isinstance(x, (np.ndarray, pd.Series, pd.DataFrame)): return x.copy()
    if isinstance(x, core.SymFloat): return core.SymFloat(x.kind, x.val)          # same value, another object
    if type(x) is float and x != x: return float('nan')
    return x

def truth(r):
    """eq's result as a (possibly symbolic) truth value; also says whether it is a boolean at all"""
    import numpy as np
    ok = isinstance(r, (bool, np.bool_)) or r.__class__ is bool
    return ok, r

def h_pair(depth, maxlen, with_np):
    def h(c):
        E = _E(); floats = []
        x = gen(c, 'x', depth, maxlen, floats, with_np = with_np); y = gen(c, 'y', depth, maxlen, floats, with_np = with_np)
        ok1, r1 = truth(E.eq(x, y)); ok2, r2 = truth(E.eq(y, x))
        c.check('returns-a-boolean', ok1 and ok2)
        b1 = True if r1 else False; b2 = True if r2 else False                 # forks on symbolic results
        c.check('symmetric', b1 == b2)
        if shape(x) != shape(y): c.check('false-when-container-types-differ-at-any-depth', not b1 and not b2)
        okr, rr = truth(E.eq(x, x)); c.check('reflexive-same-object', okr and (True if rr else False))
    return h

def h_copy(depth, maxlen, with_np):
    def h(c):
        E = _E(); floats = []
        x = gen(c, 'x', depth, maxlen, floats, with_np = with_np); y = copy_fresh_nan(c, x)
        ok, r = truth(E.eq(x, y)); ok2, r2 = truth(E.eq(y, x))
        if floats: c.cover('has-nan', X.Or([V.is_nan(f) for f in floats] + [False]))
        c.check('equals-a-structural-copy-with-other-NaN-objects', ok and ok2 and (True if r else False) and (True if r2 else False))
        c.check('in_-finds-the-copy', True if E.in_(x, [None, y]) else False)
    return h

def h_trans(depth, maxlen, kinds, with_np):
    def h(c):
        E = _E(); floats = []
        x = gen(c, 'x', depth, maxlen, floats, kinds, with_np); y = gen(c, 'y', depth, maxlen, floats, kinds, with_np); z = gen(c, 'z', depth, maxlen, floats, kinds, with_np)
        if E.eq(x, y) and E.eq(y, z): c.check('transitive', True if E.eq(x, z) else False)
    return h

def _has_nan_or_np(v):
    import numpy as np, pandas as pd
    if isinstance(v, (list, tuple)): return any(_has_nan_or_np(i) for i in v)
    if isinstance(v, dict): return any(_has_nan_or_np(i) for i in v.values())
    if isinstance(v, (np.ndarray, np.generic, pd.Series, pd.DataFrame)): return True
    return bool(V.is_nan(v))          # forks on symbolic floats

def h_plain(depth, maxlen):
    def h(c):
        E = _E(); floats = []
        x = gen(c, 'x', depth, maxlen, floats, with_np = False); y = gen(c, 'y', depth, maxlen, floats, with_np = False)
        if _has_nan_or_np(x) or _has_nan_or_np(y): return
        if shape(x) != shape(y): return                     # python's == ignores dict subclasses; type strictness is checked separately
        r = True if E.eq(x, y) else False
        c.check('agrees-with-==-on-NaN-free-plain-values', r == (True if x == y else False))
    return h

def h_dict_order(cls, nested):
    """two dicts with the same keys inserted in different orders: values are paired by key (agrees with ==; equals its own re-ordered copy)"""
    def h(c):
        E = _E(); floats = []
        kinds = ['none', 'int', 'str']
        mk = (lambda n: [V.scalar(c, n, kinds, strs = ['a', 'B'])]) if nested else (lambda n: V.scalar(c, n, kinds, strs = ['a', 'B']))
        x = cls(); x['a'] = mk('x.a'); x['b'] = mk('x.b')
        y = cls(); y['b'] = mk('y.b'); y['a'] = mk('y.a')
        r = True if E.eq(x, y) else False; r2 = True if E.eq(y, x) else False
        c.check('dict-values-are-paired-by-key-whatever-the-insertion-order', r == (True if x == y else False) and r2 == r)
        z = cls(); z['b'] = x['b']; z['a'] = x['a']
        c.check('equals-its-own-copy-with-another-key-order', (True if E.eq(x, z) else False) and (True if E.eq(z, x) else False))
    return h

def _cell_eq(a, b):
    """reference for one cell of a pandas object: NaN matches NaN, None only None, containers only the same container type cell by cell"""
    if isinstance(a, (list, tuple)) or isinstance(b, (list, tuple)):
        return type(a) is type(b) and len(a) == len(b) and all(_cell_eq(x, y) for x, y in zip(a, b))
    if a is None or b is None: return a is None and b is None
    if isinstance(a, float) and a != a: return isinstance(b, float) and b != b
    if isinstance(b, float) and b != b: return False
    return bool(a == b)
def h_pandas_cells(c):
    """pandas objects are equal only if index, columns and all cells match (the pandas members of the pool, pairwise)"""
    import pandas as pd
    E = _E(); pool = pool_np(); idx = [i for i, v in enumerate(pool) if isinstance(v, (pd.Series, pd.DataFrame))]
    x = pool[idx[c.choice('i', len(idx))]]; y = pool[idx[c.choice('j', len(idx))]]
    want = type(x) is type(y) and x.shape == y.shape and list(x.index) == list(y.index) and (not isinstance(x, pd.DataFrame) or list(x.columns) == list(y.columns)) \
           and all(_cell_eq(p, q) for p, q in zip(x.values.ravel().tolist(), y.values.ravel().tolist()))
    r = True if E.eq(x, y) else False
    c.check('pandas-objects-equal-only-if-index-columns-and-all-cells-match', r == want)
    return None

KEYSETS = [('a',), ('b',), ('a', 'b'), ('b', 'a'), ('b', 'c')]
def h_dict_keys(cls):
    """two dicts over independently chosen key sets (same or different keys, same or different insertion order), values None / int / str: eq agrees with ==, both ways"""
    def h(c):
        E = _E()
        kx = c.pick('x.keys', KEYSETS); ky = c.pick('y.keys', KEYSETS)
        x = cls(); y = cls()
        for k in kx: x[k] = V.scalar(c, 'x.' + k, ['none', 'int', 'str'], strs = ['a', 'B'])
        for k in ky: y[k] = V.scalar(c, 'y.' + k, ['none', 'int', 'str'], strs = ['a', 'B'])
        c.cover('same-size-different-keys', len(kx) == len(ky) and set(kx) != set(ky))
        r = True if E.eq(x, y) else False; r2 = True if E.eq(y, x) else False
        c.check('eq-on-dicts-agrees-with-==-whatever-the-key-sets', r == (True if x == y else False))
        c.check('symmetric', r == r2)
    return h

def obligations(tier):
    q = tier == 'quick'
    obs = []
    obs.append(Ob('pandas-cells', h_pandas_cells, setup = setup, budget_s = 300, desc = 'eq on every pair of pandas members of the pool == index, columns and cells match (None is not NaN)'))
    for cls in (dict, MyDict):
        for i, ks in enumerate(KEYSETS):
            obs.append(Ob('dict-key-sets.%s.%s' % (cls.__name__.lower(), ''.join(ks)), h_dict_keys(cls), setup = setup, pins = {'x.keys': i}, budget_s = 300,
                          desc = 'eq on two %ss over independently chosen key sets (x has keys %s) agrees with ==' % (cls.__name__, ks)))
    for cls in (dict, MyDict):
        for nested in (False, True):
            obs.append(Ob('dict-key-order.%s%s' % (cls.__name__.lower(), '.nested' if nested else ''), h_dict_order(cls, nested), setup = setup, budget_s = 300,
                          desc = 'eq on two %ss with the same keys in different insertion orders pairs the values by key%s' % (cls.__name__, ' (values are one-element lists)' if nested else '')))
    shapes0 = ['scalar', 'list', 'tuple', 'dict', 'mydict', 'np']
    for i, sx in enumerate(shapes0):
        for j, sy in enumerate(shapes0):
            obs.append(Ob('pair.%s-%s' % (sx, sy), h_pair(1, 1 if q else 2, True), setup = setup, pins = {'x.shape': i, 'y.shape': j}, budget_s = 300 if q else 1500,
                          desc = 'eq(x,y) boolean, no raise, symmetric, False on differing container skeletons (x a %s, y a %s)' % (sx, sy)))
    if not q:
        for i, sx in enumerate(shapes0[:5]):
            for j, sy in enumerate(shapes0[:5]):
                obs.append(Ob('pair2.%s-%s' % (sx, sy), h_pair(2, 1, False), setup = setup, pins = {'x.shape': i, 'y.shape': j}, budget_s = 1500, desc = 'pairs, nesting depth 2'))
    for i, sx in enumerate(shapes0):
        obs.append(Ob('copy.%s' % sx, h_copy(2, 1 if q else 2, True), setup = setup, pins = {'x.shape': i}, budget_s = 300 if q else 1500,
                      desc = 'eq(x, structural copy with fresh NaN objects), nesting depth 2 (x a %s)' % sx))
    tk = ['none', 'int', 'float'] if q else ['none', 'int', 'float', 'str', 'bool']
    shapes1 = ['scalar', 'list', 'tuple', 'dict', 'mydict']
    for i, sx in enumerate(shapes1):
        for j, sy in enumerate(shapes1):
            obs.append(Ob('transitive.%s-%s' % (sx, sy), h_trans(1, 1, tk, False), setup = setup, pins = {'x.shape': i, 'y.shape': j}, budget_s = 300 if q else 1500,
                          desc = 'transitivity over triples (x a %s, y a %s, z anything)' % (sx, sy)))
    obs.append(Ob('transitive.numpy', h_trans(0, 0, ['int', 'float'], True), setup = setup, budget_s = 300, desc = 'transitivity over scalars and the numpy/pandas pool'))
    for i, sx in enumerate(shapes1):
        obs.append(Ob('plain.%s' % sx, h_plain(1, 1 if q else 2), setup = setup, pins = {'x.shape': i}, budget_s = 300 if q else 1500, desc = 'eq agrees with == on NaN-free plain values (x a %s)' % sx))
    return obs
