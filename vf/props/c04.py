"""C04 dt() maps every supported (non-string) spelling of an instant to the same datetime."""
import datetime as _rdt
from vf.runner import Ob
from vf.symx import core, shims, ops as X
from vf.symx.core import US_DAY, ORD_MIN, ORD_MAX
from .dates_common import *

FUNCS = ['pyg_base._dates:dt', 'pyg_base._dates:ymd', 'pyg_base._dates:num2dt', 'pyg_base._dates:_ymd', 'pyg_base._dates:ym', 'pyg_base._dates:month',
         'pyg_base._dates:today', 'pyg_base._dates:dt_bump']
BOUNDS = dict(t = 'every instant of 1900-01-01 .. 2299-12-31 to the microsecond (seconds for the (y,m,d,h,mi,s) spelling)',
              overflow = 'dt(y,m,d): y in [1900,2299], every month in [-36,48], every day in [-400,400]',
              ints = 'every int in (-1500,1500] as offset from a symbolic today, (1500,3000] as a year, excel serials, ordinals and yyyymmdd ints of the whole range')
OUTSIDE = ['every string spelling (ISO, yyyymmdd text, d-m-y, m-d-y, month names, dt(dt2str(t))) and the dialect rejection rule: decided by dateutil.parser + re on a '
           'string, which cannot be made symbolic within reach; with a concrete string nothing is left for a solver to decide',
           'numpy/pandas timestamp inputs (C objects)', 'float ordinals with a day fraction (timedelta(float) rounding)', 'timezones']
ASSUMPTIONS = ['datetime/timedelta proxies over the Gregorian theory (validated against CPython on every ordinal 1770..2430)',
               'the clock (datetime.now) is a symbolic instant']

def setup():
    return setup_dates()
def _D():
    import pyg_base._dates as D
    return D

def h_identity(c):
    D = _D(); t = c.datetime('t')
    c.check('dt(t)==t', key(D.dt(t)) == key(t))
    r = D.ymd(t)
    c.check('ymd-drops-time', X.And(X.ordinal(r) == X.ordinal(t), X.us_of_day(r) == 0))
    d = t.date()
    c.check('dt(date)==midnight', X.And(X.ordinal(D.dt(d)) == X.ordinal(t), X.us_of_day(D.dt(d)) == 0))

def h_parts(c):
    D = _D(); t = c.ymd('t'); y, m, d = t.year, t.month, t.day
    c.cover('month-end', d >= 30)
    c.check('dt(y,m,d)', key(D.dt(y, m, d)) == key(t))
    c.check('dt(y,m)', X.ordinal(D.dt(y, m)) == X.ordinal(t) - d + 1)
    c.check('ymd(y,m,d)', key(D.ymd(y, m, d)) == key(t))
    c.check('dt(d,m,y)-swapped-order', key(D.dt(d, m, y)) == key(t))

def h_parts_time(c):
    D = _D(); t = c.ymd('t'); y, m, d = t.year, t.month, t.day
    hh = c.int('h', 0, 23); mi = c.int('mi', 0, 59); ss = c.int('s', 0, 59)
    r = D.dt(y, m, d, hh, mi, ss)
    c.check('dt(y,m,d,h,mi,s)', key(r) == key(t) + ((hh * 60 + mi) * 60 + ss) * 10**6)
    c.check('ymd(...)-drops-time', key(D.ymd(y, m, d, hh, mi, ss)) == key(t))
    c.check('dt(y,m,d,h)', key(D.dt(y, m, d, hh)) == key(t) + hh * 3600 * 10**6)

def h_yyyymmdd(c):
    D = _D(); t = c.ymd('t'); y, m, d = t.year, t.month, t.day
    n = y * 10000 + m * 100 + d
    c.check('dt(yyyymmdd)', key(D.dt(n)) == key(t))
    c.check('ymd(yyyymmdd)', key(D.ymd(n)) == key(t))

def h_ordinal(c):
    D = _D(); t = c.day('t'); o = X.ordinal(t)
    c.check('dt(ordinal)', key(D.dt(o)) == key(t))
    if o - 693594 > 3000: c.check('dt(excel-serial)', key(D.dt(o - 693594)) == key(t))     # serials <= 3000 are read as offsets / years

def h_overflow(c):
    D = _D(); y = c.int('y', 1900, 2299); m = c.int('m', -36, 48); d = c.int('d', -400, 400)
    c.cover('month-below-1', m < 1); c.cover('month-above-12', m > 12); c.cover('day-below-1', d < 1); c.cover('day-above-31', d > 31)
    r = D.dt(y, m, d)
    y1, m1 = month_target(y, 1, m - 1)
    c.check('first-of-normalised-month-plus-d-1-days', X.And(X.ordinal(r) == ord_of(y1, m1, 1) + d - 1, X.us_of_day(r) == 0))
    c.check('normalised-month-in-range', X.And(m1 >= 1, m1 <= 12, 12 * y1 + m1 == 12 * y + m))
    c.check('dt(y,m)-normalises', X.ordinal(D.dt(y, m)) == ord_of(y1, m1, 1))

def h_bands(c):
    """the numeric heuristics partition the ints: exactly the documented interpretation in each band"""
    D = _D()
    if c.mode == 'sym':
        now = c.datetime('now'); shims.CLOCK['now'] = now
    else:
        now = c.datetime('now')
        class _dtm(_rdt.datetime):
            @classmethod
            def now(cls, tz = None): return now
        import types
        fake = types.ModuleType('datetime'); fake.__dict__.update(_rdt.__dict__); fake.datetime = _dtm
        D.datetime = fake
    try:
        i = c.int('i', -1499, 1500)
        r = D.dt(i)
        c.cover('negative-offset', i < 0)
        c.check('small-int-is-offset-from-today', X.And(X.ordinal(r) == X.ordinal(now) + i, X.us_of_day(r) == 0))
        yr = c.int('yr', 1900, 2299)
        c.check('int-in-(1500,3000]-is-a-year', X.And(X.ordinal(D.dt(yr)) == ord_of(yr, 1, 1), X.us_of_day(D.dt(yr)) == 0))
        c.check('dt(0)-is-today', X.And(X.ordinal(D.dt(0)) == X.ordinal(now), X.us_of_day(D.dt(0)) == 0))
    finally:
        if c.mode != 'sym': D.datetime = _rdt

def obligations(tier):
    S = setup
    return [Ob('gate.gregorian-theory', theory_gate, engine = 'gate', desc = 'Gregorian theory vs CPython date'),
            Ob('identity', h_identity, setup = S, desc = 'dt(t)==t, dt(date), ymd drops the time of day'),
            Ob('parts', h_parts, setup = S, budget_s = 300, desc = 'dt(y,m,d), dt(y,m), ymd(y,m,d), dt(d,m,y)'),
            Ob('parts-time', h_parts_time, setup = S, budget_s = 300, desc = 'dt(y,m,d,h,mi,s)'),
            Ob('yyyymmdd', h_yyyymmdd, setup = S, budget_s = 300, desc = 'dt(yyyymmdd int)'),
            Ob('ordinal', h_ordinal, setup = S, desc = 'dt(ordinal), dt(excel serial)'),
            Ob('overflow', h_overflow, setup = S, budget_s = 400, desc = 'dt(y,m,d) with month in [-36,48] and day in [-400,400]'),
            Ob('bands', h_bands, setup = S, budget_s = 300, desc = 'numeric heuristics: offsets from today, years')]
