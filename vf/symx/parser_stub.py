"""contract stub for dateutil.parser.parse on the string shapes the C04 obligations build (template strings with symbolic numeric fields).

dateutil's parser is ~1500 lines of token juggling on a concrete string.  Its behaviour on these shapes (default settings, as pyg_base calls it):
  YYYY-MM-DD[Thh:mm:ss[.ffffff]] and YYYYMMDD            -> that date
  A<sep>B<sep>YYYY[ hh:mm:ss], sep in - / . space         -> month = A, day = B when A <= 12; otherwise day = A, month = B (B <= 12);
                                                             ValueError when neither reading is a valid date
  D<sep>Month<sep>YYYY and Month D YYYY (month by name)   -> that date
The stub is compared with the real parser on every (A, B) in [1,31]^2 for several years and separators, and on the other shapes, at the
start of every run (gate()); it works on concrete ints as well as on symbolic ones."""
import datetime as _rdt, re
from . import core, shims
from .core import Unsupported
from .symstr import SymStr, Field

MONTHS = ['jan', 'feb', 'mar', 'apr', 'may', 'jun', 'jul', 'aug', 'sep', 'oct', 'nov', 'dec']

def _tokens(s):
    """[('F', field) | ('L', literal chunk)] with literals split into separators / words"""
    out = []
    for p in s.parts:
        if isinstance(p, Field): out.append(('F', p))
        else:
            for tok in re.findall(r'[A-Za-z]+|[^A-Za-z]', p): out.append(('W' if tok.isalpha() else 'S', tok))
    return out

def _mk(dt, y, m, d, hh = 0, mi = 0, ss = 0, us = 0):
    return dt(y, m, d, hh, mi, ss, us)

def _time(toks):
    """[sep] HH:MM:SS[.ffffff] tail -> (h, m, s, us)"""
    kinds = ''.join(k for k, v in toks)
    if kinds == '': return 0, 0, 0, 0
    if kinds in ('SFSFSF', 'SFSFSFSF', 'WFSFSF', 'WFSFSFSF') and toks[2][1] == ':' and toks[4][1] == ':' and toks[0][1] in (' ', 'T', 't'):
        us = toks[7][1].v if len(kinds) == 8 else 0
        return toks[1][1].v, toks[3][1].v, toks[5][1].v, us
    raise Unsupported('parser stub: time tail %r' % kinds)

def make(dtcls):
    class parser:
        @staticmethod
        def parse(s, **kw):
            if kw: raise Unsupported('parser stub: options')
            if not isinstance(s, SymStr): raise Unsupported('parser stub: concrete string')
            toks = _tokens(s); kinds = ''.join(k for k, v in toks)
            F = [v for k, v in toks if k == 'F']
            c = core.CUR
            def valid(y, m, d):
                ok = core.mkbool(core.valid(core.zi(y), core.zi(m), core.zi(d))) if any(core.is_sym(v) for v in (y, m, d)) else (1 <= m <= 12 and 1 <= d <= core.dim_py(y, m))
                return True if ok else False                      # forks
            if kinds == 'FFF' and [f.w for f in F] == [4, 2, 2]: return _mk(dtcls, F[0].v, F[1].v, F[2].v)           # YYYYMMDD rendered as three fields
            if kinds.startswith('F') and F[0].w == 8:                               # YYYYMMDD
                v = F[0].v; return _mk(dtcls, v // 10000, (v // 100) % 100, v % 100)
            if kinds.startswith('FSFSF') and F[0].w == 4 and toks[1][1] == toks[3][1] == '-':        # ISO
                h, mi, se, us = _time(toks[5:])
                return _mk(dtcls, F[0].v, F[1].v, F[2].v, h, mi, se, us)
            if kinds.startswith('FSFSF') and F[2].w == 4 and toks[1][1] in '-/. ' and toks[3][1] in '-/. ':     # A sep B sep YYYY
                a, b, y = F[0].v, F[1].v, F[2].v
                h, mi, se, us = _time(toks[5:])
                if (a <= 12) and valid(y, a, b): return _mk(dtcls, y, a, b, h, mi, se, us)
                if (b <= 12) and valid(y, b, a): return _mk(dtcls, y, b, a, h, mi, se, us)
                raise ValueError('parser stub: day is out of range for month')
            if kinds.startswith('FSWSF') and F[1].w == 4:                            # D sep Month sep YYYY
                mname = toks[2][1][:3].lower()
                if mname not in MONTHS: raise Unsupported('parser stub: word %r' % toks[2][1])
                h, mi, se, us = _time(toks[5:])
                return _mk(dtcls, F[1].v, MONTHS.index(mname) + 1, F[0].v, h, mi, se, us)
            raise Unsupported('parser stub: shape %r' % kinds)
    return parser

def gate():
    from dateutil import parser as real
    stub = make(_rdt.datetime).parse; n = 0
    def tpl(fmt, **f):
        parts = []
        for tok in re.findall(r'\{[^}]+\}|[^{]+', fmt):
            if tok.startswith('{'):
                name, w = tok[1:-1].split(':'); parts.append(Field(f[name], int(w), name))
            else: parts.append(tok)
        s = SymStr(parts); text = ''.join(('%0' + str(p.w) + 'd') % p.v if isinstance(p, Field) else p for p in s.parts)
        return s, text
    def same(s, text):
        try: a = stub(s)
        except ValueError: a = 'error'
        try: b = real.parse(text)
        except (ValueError, OverflowError): b = 'error'
        return a == b, (text, a, b)
    for y in (1999, 2000, 2023, 2100):
        for a in range(1, 32):
            for b in range(1, 32):
                for sep in '-/. ':
                    for wa in ((1, 2) if a < 10 else (2,)):
                        ok, info = same(*tpl('{a:%d}%s{b:2}%s{y:4}' % (wa, sep, sep), a = a, b = b, y = y)); n += 1
                        if not ok: return False, dict(mismatch = str(info))
                ok, info = same(*tpl('{a:2}-{b:2}-{y:4} {h:2}:{m:2}:{s:2}', a = a, b = b, y = y, h = 10, m = 20, s = 30)); n += 1
                if not ok: return False, dict(mismatch = str(info))
        for m in range(1, 13):
            for d in (1, 13, 28, 29, 30, 31):
                if d > core.dim_py(y, m): continue
                for fmt in ('{y:4}-{m:2}-{d:2}', '{y:4}-{m:2}-{d:2}T{h:2}:{mi:2}:{s:2}', '{y:4}-{m:2}-{d:2}T{h:2}:{mi:2}:{s:2}.{us:6}'):
                    ok, info = same(*tpl(fmt, y = y, m = m, d = d, h = 23, mi = 59, s = 58, us = 50)); n += 1
                    if not ok: return False, dict(mismatch = str(info))
                s8 = SymStr([Field(y * 10000 + m * 100 + d, 8, 'ymd')])
                if stub(s8) != real.parse('%04d%02d%02d' % (y, m, d)): return False, dict(mismatch = 'yyyymmdd %s' % ((y, m, d),))
                for name in ('March', 'mar'):
                    ok, info = same(*tpl('{d:2} %s {y:4}' % name, d = d, y = y)) if d <= 31 and core.dim_py(y, 3) >= d else (True, None); n += 1
                    if not ok: return False, dict(mismatch = str(info))
    return True, dict(comparisons = n)
