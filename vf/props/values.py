"""symbolic value universes shared by the table / ordering / equality properties.

A *cell* is produced by a solver-chosen kind tag (a fork per kind) and solver-chosen content; in concrete (replay) mode the
same code rebuilds the plain python value from the model."""
import datetime as _rdt, math
from vf.symx import core, shims, ops as X

STRS = ['', 'a', 'B', 'ab', 'b']
INT_B = 2**40            # ints are exact as floats far beyond this bound

def scalar(c, name, kinds, pool = None, strs = STRS):
    """kinds: subset of none bool int float ffloat (finite float) nan str dt date.  `pool`: list of already generated
    values this one may alias (same python object) -- that is how 'NaN objects of the same / different identity' is modelled."""
    opts = list(kinds)
    if pool: opts = opts + ['alias']
    k = c.pick(name + '.kind', opts)
    if k == 'none': return None
    if k == 'bool': return c.bool(name + '.b')
    if k == 'int': return c.int(name + '.i', -INT_B, INT_B)
    if k == 'float': return c.float(name + '.f')
    if k == 'ffloat': return c.float(name + '.f', allow = (core.FIN,))
    if k == 'nan': return c.float(name + '.f', allow = (core.NAN,))
    if k == 'str': return c.pick(name + '.s', strs)
    if k == 'dt': return c.datetime(name + '.t', us_step = 10**6)
    if k == 'date':
        t = c.day(name + '.d')
        return t.date()
    if k == 'alias': return pool[c.choice(name + '.alias', len(pool))]
    if k == 'np': return nppool()[c.choice(name + '.np', 5)]
    raise ValueError(k)

def nppool():
    import numpy as np
    return [np.int64(3), np.float64(2.5), np.float64('nan'), np.bool_(True), np.int32(-1)]

SCALARS = ['none', 'bool', 'int', 'float', 'str', 'dt']

def value(c, name, kinds, depth = 0, maxlen = 2, containers = ('tuple', 'list', 'dict'), pool = None, inner = None):
    """a scalar or (depth > 0) a tuple / list / dict (string keys 'a','b') of values"""
    if depth <= 0: return scalar(c, name, kinds, pool)
    opts = list(kinds) + list(containers)
    k = c.pick(name + '.shape', opts)
    if k not in containers: return _fixed(c, name, k, pool)
    n = c.choice(name + '.len', maxlen + 1)
    items = [value(c, '%s.%d' % (name, i), inner or kinds, depth - 1, maxlen, containers, pool, inner) for i in range(n)]
    if k == 'tuple': return tuple(items)
    if k == 'list': return items
    return dict(zip(['a', 'b', 'c'], items))

def _fixed(c, name, k, pool):
    return scalar(c, name, [k], None)

def is_nan(v):
    """NaN test that works for proxies and plain floats (never true for non-floats)"""
    if isinstance(v, core.SymFloat): return core.mkbool(v.kind == core.NAN)
    return isinstance(v, float) and v != v

def same(a, b):
    """cell equality for oracles: identical object, or equal, or both NaN; None only equals None; strings only strings"""
    if a is b: return True
    if a is None or b is None: return False
    if isinstance(a, str) or isinstance(b, str): return isinstance(a, str) and isinstance(b, str) and a == b
    ta = isinstance(a, (_rdt.date, core.SymDatetime)) or (core.is_sym(a) and a.__class__ in (_rdt.datetime, _rdt.date))
    tb = isinstance(b, (_rdt.date, core.SymDatetime)) or (core.is_sym(b) and b.__class__ in (_rdt.datetime, _rdt.date))
    if ta or tb: return (a == b) if (ta and tb) else False
    return X.Or(a == b, X.And(is_nan(a), is_nan(b)))

def same_eq(a, b):
    """python's == between two cells (no NaN special case), proxies or plain"""
    return a == b
