"""obligation scheduler, replay, known findings, evidence."""
import os, sys, json, time, hashlib, importlib, inspect, multiprocessing as mp, subprocess, traceback, random, signal

ROOT = os.path.dirname(os.path.dirname(os.path.abspath(__file__)))
PY = sys.executable
REPO = os.environ.get('PYG_BASE_REPO', '/repo')
OUT = os.environ.get('VERIF_OUT') or ROOT        # where evidence/ and replays/ are written: /verif, or VERIF_OUT for runs against a scratch copy of the repository (tools/seed_sweep.py --copy)

class Ob:
    """one proof obligation.
    engine 'symx': fn(ctx) is a dual-mode harness explored symbolically; setup() installs the shims in the worker.
    engine 'chx' : CrossHair on function `fn` (a name) of harness module `module`.
    engine 'gate': fn() -> (ok, info) validation of a model/theory/shim against the real implementation."""
    def __init__(self, id, fn, engine = 'symx', setup = None, budget_s = 120, fuel = 2000, max_paths = 200000, desc = '',
                 module = None, qtimeout_ms = 8000, bounds = None, classify = None, twin = None, pins = None):
        self.id = id; self.fn = fn; self.engine = engine; self.setup = setup; self.budget_s = budget_s; self.fuel = fuel
        self.max_paths = max_paths; self.desc = desc; self.module = module; self.qtimeout_ms = qtimeout_ms
        self.bounds = bounds or {}; self.classify = classify; self.twin = twin; self.pins = pins

def load_prop(pid):
    return importlib.import_module('vf.props.' + pid.lower())

# ------------------------------------------------------------------ workers

def _work(ob, conn, seed, known):
    try:
        os.setpgrp()
    except Exception: pass
    t0 = time.time()
    try:
        if ob.engine == 'symx':
            from vf.symx import core, shims
            if ob.setup: ob.setup()
            def fn(c):
                shims.reset(); return ob.fn(c)
            r = core.explore(fn, max_paths = ob.max_paths, budget_s = ob.budget_s, fuel = ob.fuel, qtimeout_ms = ob.qtimeout_ms,
                             seed = seed, known = known, pins = ob.pins)
            out = dict(engine = 'symx', paths = r['paths'], sym_paths = r['sym_paths'], ok_paths = r['ok_paths'], infeasible = r['infeasible'],
                       queries = r['queries'], solver_s = round(r['solver_s'], 3), checks = r['checks'],
                       failures = [dict(label = l, model = m) for l, m in r['failures']],
                       inconclusive = r['inconclusive'][:5], n_inconclusive = len(r['inconclusive']), complete = r['complete'],
                       uncovered = sorted(set(r['cover_labels']) - set(r['covered'])), covered = r['covered'], samples = r['samples'], witnesses = r['witnesses'])
        elif ob.engine == 'chx':
            from vf import chx
            out = chx.run(ob, seed)
        elif ob.engine == 'gate':
            ok, info = ob.fn()
            out = dict(engine = 'gate', ok = bool(ok), info = info, failures = [], complete = bool(ok), inconclusive = [] if ok else ['gate failed'],
                       paths = 0, queries = 0, solver_s = 0, checks = info.get('comparisons', 0) if isinstance(info, dict) else 0)
        else:
            raise ValueError(ob.engine)
    except BaseException as e:
        out = dict(engine = ob.engine, crashed = ''.join(traceback.format_exception(type(e), e, e.__traceback__))[-3000:], failures = [], complete = False,
                   inconclusive = ['harness crashed'], paths = 0, queries = 0, solver_s = 0, checks = 0)
    out['wall_s'] = round(time.time() - t0, 2); out['id'] = ob.id
    try:
        conn.send(out)
    except Exception as e:
        conn.send(dict(id = ob.id, engine = ob.engine, crashed = 'result not sendable: %r' % e, failures = [], complete = False,
                       inconclusive = ['harness crashed'], paths = 0, queries = 0, solver_s = 0, checks = 0, wall_s = out['wall_s']))
    conn.close()

def run_obligations(obs, jobs, seed, known, log, deadline = None):
    """deadline (absolute time or None): the wall budget of the tier.  Once it has passed no further obligation is started (it is reported as inconclusive, 'not started'),
    and an obligation started shortly before it gets no more than the time that is left (at least 60 s)"""
    ctx = mp.get_context('fork')
    pending = list(obs); running = {}; results = {}
    while pending or running:
        if deadline is not None and pending and time.time() > deadline:
            for ob in pending:
                results[ob.id] = dict(id = ob.id, engine = ob.engine, failures = [], complete = False, inconclusive = ['not started: the wall budget of the tier (VERIF_TIER_WALL) was used up'], paths = 0, queries = 0, solver_s = 0, checks = 0, wall_s = 0, not_started = True)
            log('  %d obligations not started: the wall budget of the tier was used up' % len(pending)); pending = []
        while pending and len(running) < jobs:
            ob = pending.pop(0)
            if deadline is not None: ob.budget_s = max(60, min(ob.budget_s, deadline - time.time()))
            pr, pw = ctx.Pipe(duplex = False)
            p = ctx.Process(target = _work, args = (ob, pw, seed, known)); p.start(); pw.close()
            running[ob.id] = (ob, p, pr, time.time())
        time.sleep(0.05)
        for oid in list(running):
            ob, p, pr, t0 = running[oid]
            if pr.poll():
                try: results[oid] = pr.recv()
                except EOFError: results[oid] = dict(id = oid, engine = ob.engine, crashed = 'worker died', failures = [], complete = False, inconclusive = ['worker died'], paths = 0, queries = 0, solver_s = 0, checks = 0, wall_s = time.time() - t0)
                p.join(5); del running[oid]
                log('  %-44s %s' % (oid, _short(results[oid])))
            elif not p.is_alive():
                p.join(1)
                if pr.poll(): continue
                results[oid] = dict(id = oid, engine = ob.engine, crashed = 'worker exited %s' % p.exitcode, failures = [], complete = False, inconclusive = ['worker died'], paths = 0, queries = 0, solver_s = 0, checks = 0, wall_s = time.time() - t0)
                del running[oid]; log('  %-44s worker died (%s)' % (oid, p.exitcode))
            elif time.time() - t0 > ob.budget_s * 1.5 + 60:
                try: os.killpg(p.pid, signal.SIGKILL)
                except Exception: p.kill()
                p.join(5)
                results[oid] = dict(id = oid, engine = ob.engine, failures = [], complete = False, inconclusive = ['killed after %.0f s (budget %s s)' % (time.time() - t0, ob.budget_s)], paths = 0, queries = 0, solver_s = 0, checks = 0, wall_s = time.time() - t0)
                del running[oid]; log('  %-44s killed (over budget)' % oid)
    return [results[o.id] for o in obs]

def _short(r):
    if r.get('crashed'): return 'CRASHED ' + r['crashed'].strip().splitlines()[-1][:150]
    if r['engine'] == 'gate': return ('gate ok ' if r.get('ok') else 'GATE FAILED ') + json.dumps(r.get('info'))[:150]
    v = verdict(r)
    s = '%-13s paths=%s queries=%s solver=%ss wall=%ss' % (v, r.get('paths'), r.get('queries'), r.get('solver_s'), r.get('wall_s'))
    if r.get('failures'): s += ' model=' + json.dumps(r['failures'][0].get('model'))[:200]
    elif r.get('inconclusive'): s += ' [' + '; '.join(r['inconclusive'][:2])[:160] + ']'
    if r.get('uncovered'): s += ' UNCOVERED=' + ','.join(r['uncovered'])
    return s

def verdict(r):
    if r.get('crashed'): return 'crashed'
    if r['engine'] == 'gate': return 'gate-ok' if r.get('ok') else 'gate-failed'
    if r.get('failures'): return 'model-found'
    if not r.get('complete'): return 'inconclusive'
    if r.get('uncovered'): return 'vacuous'
    if r['engine'] == 'symx' and not r.get('ok_paths'): return 'vacuous'
    return 'proved-in-bound'

# ------------------------------------------------------------------ replay

def replay_file(pid, path, tier = 'quick'):
    """concrete replay in a fresh interpreter without any shim: returns (failed_labels, raw)"""
    cmd = [PY, '-m', 'vf.cli', pid, '--replay', path, '--quiet', '--tier', tier]
    env = dict(os.environ); env['PYTHONPATH'] = ROOT + os.pathsep + env.get('PYTHONPATH', ''); env.pop('VF_SYMX', None)
    try:
        p = subprocess.run(cmd, capture_output = True, text = True, timeout = 120, env = env, cwd = ROOT)
    except subprocess.TimeoutExpired:
        return ['<timeout>'], 'replay timed out after 120 s'
    failed = []
    for line in p.stdout.splitlines():
        if line.startswith('REPLAY-FAILED '): failed = json.loads(line[len('REPLAY-FAILED '):])
    if p.returncode not in (0, 1): return None, (p.stdout + p.stderr)[-2000:]
    return failed, (p.stdout + p.stderr)[-2000:]

def _obligations_of(mod, tier):
    """obligations by id; an id that exists in both tiers (with other bounds) resolves to the given tier"""
    other = 'thorough' if tier == 'quick' else 'quick'
    obs = {o.id: o for o in mod.obligations(other)}
    obs.update({o.id: o for o in mod.obligations(tier)})
    return obs

def do_replay(pid, path, quiet = False, tier = None):
    """entry for --replay: run the obligation named in the file concretely; exit 1 if a check fails"""
    rec = json.load(open(path))
    mod = load_prop(pid)
    obs = _obligations_of(mod, rec.get('tier') or tier or 'quick')
    ob = obs.get(rec['obligation'])
    if ob is None:
        print('unknown obligation', rec['obligation']); return 2
    if ob.engine == 'chx':
        from vf import chx
        failed = chx.replay(ob, rec)
    else:
        from vf.symx import core
        failed = _conc(ob, rec['model'])
    print('REPLAY-FAILED ' + json.dumps(failed))
    if not quiet:
        print('obligation %s (%s)\ninput %s\n%s' % (ob.id, ob.desc, json.dumps(rec['model']), 'checks failed on the real code: %s' % failed if failed else 'all checks pass on the real code'))
    return 1 if failed else 0

def _conc(ob, model):
    from vf.symx import core
    import threading
    res = {}
    def alarm(signum, frame): raise TimeoutError('no result within 20 s (non-termination?)')
    signal.signal(signal.SIGALRM, alarm); signal.alarm(20)
    try:
        return core.run_concrete(ob.fn, model)
    except TimeoutError as e:
        return ['<non-termination>']
    except Exception as e:
        return ['unexpected-exception:%s' % type(e).__name__]
    finally:
        signal.alarm(0)

# ------------------------------------------------------------------ known findings

def load_known(pid):
    """lines of /verif/known_findings.txt:
         KNOWN-FINDING: property=C07 class=<name> <text>
         fixed: property=C07 <commit> <text>"""
    path = os.path.join(ROOT, 'known_findings.txt'); out = {}
    if os.path.exists(path):
        for line in open(path):
            line = line.strip()
            if line.startswith('KNOWN-FINDING:') and ('property=%s ' % pid) in line:
                toks = line.split()
                cls = [t[6:] for t in toks if t.startswith('class=')]
                if cls: out[cls[0]] = line
    return out

# ------------------------------------------------------------------ evidence

def src_hashes(funcs):
    """sha256 of the current source of every encoded function ('pyg_base._dates:dt_bump')"""
    out = {}
    for f in funcs:
        try:
            m, q = f.split(':'); obj = importlib.import_module(m)
            for part in q.split('.'): obj = getattr(obj, part)
            obj = getattr(obj, '__wrapped__', obj)
            try: src = inspect.getsource(obj)
            except TypeError:
                obj = getattr(obj, 'function', obj); src = inspect.getsource(obj)
            out[f] = hashlib.sha256(src.encode()).hexdigest()[:16]
        except Exception as e:
            out[f] = 'unavailable: %s' % type(e).__name__
    return out

def main(pid, tier, jobs = None, only = None, seed = None):
    t0 = time.time()
    seed = int(os.environ.get('VERIF_SEED', '0')) if seed is None else seed
    jobs = jobs or int(os.environ.get('VERIF_JOBS', '0')) or (os.cpu_count() or 4)
    mod = load_prop(pid)
    def log(s): print(s, flush = True)
    known = load_known(pid)
    obs = mod.obligations(tier)
    if only: obs = [o for o in obs if any(s in o.id for s in only)]
    rnd = random.Random(seed); order = list(obs)
    # wall budget of the tier: quick has none; thorough defaults to 1200 s (VERIF_TIER_WALL=<seconds>, 0 = unlimited) - what does not fit is reported as not started, never as held
    tier_wall = float(os.environ.get('VERIF_TIER_WALL', '0' if tier == 'quick' else '1200'))
    # without a wall budget: gates, then long obligations first (best packing); with one: gates, then the cheap obligations first, so that the budget is spent on
    # as many complete verdicts as possible and the deepest obligations take whatever is left
    heavy = sorted(order, key = lambda o: (o.engine != 'gate', o.budget_s if tier_wall else -o.budget_s))
    log('== %s tier=%s obligations=%d jobs=%d seed=%d known-findings=%s%s' % (pid, tier, len(obs), jobs, seed, sorted(known), ' tier-wall=%ds' % tier_wall if tier_wall else ''))
    results = run_obligations(heavy, jobs, seed, sorted(known), log, deadline = (t0 + tier_wall) if tier_wall else None)
    byid = {r['id']: r for r in results}
    os.makedirs(os.path.join(OUT, 'replays', pid), exist_ok = True)
    violations = []; spurious = 0; known_hit = {}; harness_error = False; nrep = 0
    for ob in obs:
        r = byid[ob.id]
        if r.get('crashed'): harness_error = True
        if r['engine'] == 'gate' and not r.get('ok'): harness_error = True
        r['verdict'] = verdict(r)
        for f in r.get('failures', []):
            nrep += 1
            path = os.path.join(OUT, 'replays', pid, '%s.%d.json' % (ob.id.replace('/', '_'), nrep))
            rec = dict(property = pid, obligation = ob.id, label = f['label'], model = f['model'], desc = ob.desc, tier = tier)
            json.dump(rec, open(path, 'w'), indent = 1, sort_keys = True)
            failed, raw = replay_file(pid, path, tier)
            f['replay'] = path
            if failed is None:
                log('  replay harness error for %s: %s' % (ob.id, raw[-400:])); harness_error = True; r['verdict'] = 'crashed'; continue
            if failed:
                cls = None
                if ob.classify:
                    try: cls = ob.classify(f['model'], failed)
                    except Exception as e: cls = None
                f['reproduced'] = True; f['class'] = cls
                if cls is not None and cls in known:
                    known_hit[cls] = (ob.id, path); r['verdict'] = 'known-finding'
                else:
                    r['verdict'] = 'violated'; violations.append((ob.id, failed[0], path, failed))
            else:
                f['reproduced'] = False; spurious += 1; r['verdict'] = 'inconclusive'
                r.setdefault('inconclusive', []).append('model did not reproduce on the real code (spurious): %s' % f['label'])
                os.remove(path)
    # conformance: models of explored paths and the reachability witnesses are pushed through the real code concretely.  A check that
    # fails there is a reproduced violation by definition (real code + oracle on a concrete input), whatever the symbolic verdict was.
    conf = conformance(pid, obs, byid, log, tier = tier)
    for m in conf['mismatch']:
        if 'obligation' not in m: harness_error = True; continue
        ob = [o for o in obs if o.id == m['obligation']][0]; r = byid[ob.id]; nrep += 1
        path = os.path.join(OUT, 'replays', pid, '%s.%d.json' % (ob.id.replace('/', '_'), nrep))
        json.dump(dict(property = pid, obligation = ob.id, label = m['failed'][0], model = m['model'], desc = ob.desc, source = 'witness/conformance replay', tier = tier),
                  open(path, 'w'), indent = 1, sort_keys = True)
        cls = None
        if ob.classify:
            try: cls = ob.classify(m['model'], m['failed'])
            except Exception: cls = None
        r.setdefault('failures', []).append(dict(label = m['failed'][0], model = m['model'], replay = path, reproduced = True, **{'class': cls}))
        if cls is not None and cls in known:
            known_hit[cls] = (ob.id, path)
            if r['verdict'] != 'violated': r['verdict'] = 'known-finding'
        else:
            if r['verdict'] == 'proved-in-bound': r['encoding_mismatch'] = True
            r['verdict'] = 'violated'; violations.append((ob.id, m['failed'][0], path, m['failed']))
    counts = {}
    for r in results: counts[r['verdict']] = counts.get(r['verdict'], 0) + 1
    for cls, line in known.items():
        if cls in known_hit: print('KNOWN-FINDING: property=%s class=%s obligation=%s replay=%s :: %s' % (pid, cls, known_hit[cls][0], known_hit[cls][1], line.split(' ', 3)[-1]))
    for oid, label, path, failed in violations:
        print('VIOLATION property=%s replay=%s obligation=%s check=%s' % (pid, path, oid, label))
    wall = time.time() - t0
    ev = build_evidence(pid, tier, seed, mod, obs, results, counts, conf, spurious, len(violations), wall, known_hit)
    os.makedirs(os.path.join(OUT, 'evidence'), exist_ok = True)
    # a run restricted with --only is a debugging run: its (partial) evidence goes next to the replays, never over the evidence of the full check
    evpath = os.path.join(OUT, 'replays', pid + '.partial-evidence.json') if only else os.path.join(OUT, 'evidence', pid + '.json')
    os.makedirs(os.path.dirname(evpath), exist_ok = True)
    json.dump(ev, open(evpath, 'w'), indent = 1, sort_keys = True, default = str)
    log('== %s %s: %s; spurious models=%d; conformance replays=%d; wall %.1fs' % (pid, tier, counts, spurious, conf['replayed'], wall))
    if violations: return 1
    if harness_error:
        log('HARNESS-ERROR (no verdict): see crashed / gate-failed obligations above'); return 2
    return 0

def conformance(pid, obs, byid, log, per_ob = 2, tier = 'quick'):
    """push models of proved paths through the real code concretely: every check must pass there too"""
    items = []
    for ob in obs:
        r = byid[ob.id]
        if r['engine'] != 'symx' or any(f.get('reproduced') for f in r.get('failures', [])): continue
        for s in r.get('samples', [])[:per_ob]: items.append(dict(obligation = ob.id, model = s['model']))
        for k, w in sorted((r.get('witnesses') or {}).items()): items.append(dict(obligation = ob.id, model = w, witness = k))
    out = dict(replayed = 0, mismatch = [])
    if not items: return out
    path = os.path.join(OUT, 'replays', pid, '_conformance.json')
    json.dump(items, open(path, 'w'))
    env = dict(os.environ); env['PYTHONPATH'] = ROOT + os.pathsep + env.get('PYTHONPATH', '')
    try:
        p = subprocess.run([PY, '-m', 'vf.cli', pid, '--conformance', path, '--tier', tier], capture_output = True, text = True, timeout = 900, env = env, cwd = ROOT)
        for line in p.stdout.splitlines():
            if line.startswith('CONFORMANCE '): out.update(json.loads(line[len('CONFORMANCE '):]))
        if p.returncode != 0 and not out['replayed']:
            out['mismatch'].append('conformance runner failed: ' + (p.stdout + p.stderr)[-500:])
    except subprocess.TimeoutExpired:
        out['mismatch'].append('conformance runner timed out')
    finally:
        if os.path.exists(path): os.remove(path)
    for m in out['mismatch']: log('  concrete replay of a path model / witness FAILS on the real code: %s' % (m,))
    return out

def do_conformance(pid, path, tier = 'quick'):
    items = json.load(open(path)); mod = load_prop(pid)
    obs = _obligations_of(mod, tier)
    n = 0; bad = []
    for it in items:
        ob = obs[it['obligation']]
        failed = _conc(ob, it['model'])
        n += 1
        if failed: bad.append(dict(obligation = ob.id, model = it['model'], failed = failed))
    print('CONFORMANCE ' + json.dumps(dict(replayed = n, mismatch = bad)))
    return 0

def build_evidence(pid, tier, seed, mod, obs, results, counts, conf, spurious, nviol, wall, known_hit):
    tot = lambda k: sum((r.get(k) or 0) for r in results)
    samples = []
    for r in results:
        for s in r.get('samples', [])[:1]:
            if len(samples) < 6: samples.append(dict(obligation = r['id'], path_decisions = s.get('decisions'), model = s.get('model')))
        for f in r.get('failures', [])[:1]:
            samples.append(dict(obligation = r['id'], counterexample = f.get('model'), check = f.get('label'), reproduced = f.get('reproduced'), cls = f.get('class')))
    if not samples: samples = [dict(obligation = r['id'], verdict = r['verdict']) for r in results[:3]]
    obl = []
    for ob, r in zip(obs, [ {x['id']: x for x in results}[o.id] for o in obs ]):
        obl.append(dict(id = ob.id, engine = r['engine'], desc = ob.desc, verdict = r['verdict'], paths = r.get('paths'), queries = r.get('queries'),
                        solver_s = r.get('solver_s'), wall_s = r.get('wall_s'), bounds = ob.bounds, budget_s = ob.budget_s,
                        inconclusive = r.get('inconclusive', [])[:3], uncovered = r.get('uncovered', []), covered = r.get('covered', []),
                        info = r.get('info'), crashed = (r.get('crashed') or '')[-300:] or None))
    proved = counts.get('proved-in-bound', 0); nprop = sum(1 for r in results if r['engine'] != 'gate')
    ev = dict(
        property_id = pid, tier = tier, seed = seed, level = 'model_checking', wall_s = round(wall, 2), violations = nviol,
        coverage = dict(
            explanation = 'bounded symbolic checking: the real functions are executed on symbolic inputs, every branch and every assertion is decided by z3 '
                          '(symx) or by CrossHair/z3 (chx); a verdict covers every input inside the stated bounds of its obligation and nothing outside',
            states = max(1, tot('paths')), transitions = max(1, tot('checks') + tot('queries')),
            traces_validated_against_impl = conf['replayed'],
            evaluations = max(1, tot('queries')), distinct_nontrivial = sum((r.get('sym_paths') or r.get('paths') or 0) for r in results if r['engine'] != 'gate'),
            rule = 'one case = one feasible execution path of one obligation (a distinct sequence of solver-decided branch outcomes over symbolic inputs); '
                   'evaluations = solver queries discharged; non-trivial = the path condition constrains at least one symbolic input',
            samples = samples, exhaustive = False,
            obligations = nprop, discharged = proved, verdicts = counts, spurious_models = spurious,
            tier_wall_budget_s = float(os.environ.get('VERIF_TIER_WALL', '0' if tier == 'quick' else '1200')), not_started = sum(1 for r in results if r.get('not_started')),
            solver_seconds = round(tot('solver_s'), 2), solver_queries = tot('queries'), paths = tot('paths'),
            functions_encoded = src_hashes(getattr(mod, 'FUNCS', [])), bounds = getattr(mod, 'BOUNDS', {}), outside_claim = getattr(mod, 'OUTSIDE', []),
            known_findings_hit = sorted(known_hit), conformance = conf, obligations_detail = obl,
            checker_cmd = 'bin/check %s --tier %s' % (pid, tier), trusted_base = ['z3 5.1.0', 'CPython 3.12', 'vf.symx proxies (validated by concrete replay + conformance runs)'],
        ),
        assumptions = getattr(mod, 'ASSUMPTIONS', []),
    )
    return ev
