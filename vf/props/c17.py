"""C17 bitemporal store: reading as of T sees exactly what had been published by T."""
import datetime as _rdt, itertools
from vf.runner import Ob
from vf import minipd
from vf.symx import core, shims, ops as X
from .pandas_common import setup_pandas, mkseries, feq
from . import values as V
from .dates_common import key

FUNCS = ['pyg_base._bitemporal:bi_merge', 'pyg_base._bitemporal:bi_read', 'pyg_base._bitemporal:_drop_repeats', 'pyg_base._bitemporal:Bi', 'pyg_base._bitemporal:_nth',
         'pyg_base._bitemporal:_as_what', 'pyg_base._bitemporal:is_bi', 'pyg_base._bitemporal:_get_columns']
BOUNDS = dict(histories = '2..3 publications (thorough 4) merged one after the other with bi_merge, each a partial Series over 2 fixed observation dates (which dates a publication covers is a '
                          'solver-chosen selector), values arbitrary floats incl. NaN (repeats and reverts are solver cases), publication stamps arbitrary non-decreasing instants (ties allowed)',
              reads = 'bi_read at an arbitrary instant T (before / between / on / after the stamps), what = -1 and what = 0; re-merging a publication already in the store')
OUTSIDE = ['multi-column stores, stores with more than 16 rows per date (pandas\' default sort is not stable there)', 'asof given as another bitemporal frame', "what = 'first' / 'last' / other ints",
           'publication stamps that decrease']
ASSUMPTIONS = ['pandas replaced by the minipd model extended with a small DataFrame (duplicate index labels, sort_values, groupby by index, apply, drop_duplicates, ffill, concat); the model is validated by running the real '
               'bi_merge / bi_read on an exhaustive small domain of concrete histories under both the real pandas and the model at the start of every run (gate.bitemporal-model)',
               'observation dates are two fixed days (they are hashed by groupby); stamps, values and the read time are symbolic']

D0 = _rdt.datetime(2020, 1, 1); D1 = _rdt.datetime(2020, 1, 2)
OBS = [D0, D1]

_B = {}
def setup():
    setup_pandas()
    from vf.symx import rewrite
    import pyg_base._pandas as Pm
    B = rewrite.load('pyg_base._bitemporal', dict(pd = minipd.pd, np = Pm.np, set = rewrite.sym_set))
    _B['B'] = B

def Bm(c):
    if c is not None and c.mode == 'sym': return _B['B']
    import pyg_base._bitemporal as B
    return B

def rows_of(res):
    """[(observation date, value)] of a bi_read result (Series) in either world"""
    if res is None: return []
    if isinstance(res, minipd.Series): return list(zip(res._i._l, res._v))
    if isinstance(res, minipd.DataFrame): return [(t, tuple(res._c[c][i] for c in res._cols)) for i, t in enumerate(res._i._l)]
    import pandas as rpd
    if isinstance(res, rpd.Series): return list(zip([t.to_pydatetime() for t in res.index], [float(v) for v in res.values]))
    return [(t.to_pydatetime(), tuple(float(x) for x in row)) for t, row in zip(res.index, res.values)]

def history(c, k):
    """k publications: (stamp, [(date, value)]) with non-decreasing stamps"""
    td = shims.shim_timedelta if c.mode == 'sym' else _rdt.timedelta
    pubs = []; stamp = c.datetime('stamp0', us_step = 3600 * 10**6)
    for i in range(k):
        if i: stamp = stamp + td(hours = c.int('gap%d' % i, 0, 48))
        cover = c.pick('cover%d' % i, [(0,), (1,), (0, 1)])
        cells = [(OBS[j], c.float('v%d.%d' % (i, j), allow = (core.FIN, core.NAN), halves = 6)) for j in cover]
        pubs.append((stamp, cells))
    return pubs

def build(c, pubs):
    B = Bm(c); store = None
    for stamp, cells in pubs:
        s = mkseries(c, [v for d, v in cells], [d for d, v in cells])
        store = B.bi_merge(store, s, asof = stamp)
    return store

def expected(pubs, T, what):
    """oracle: per observation date, among the publications with stamp <= T that mention it (in merge order): what = 0 -> the first value published;
    what = -1 -> the latest value, where a NaN never overrides an earlier value and of several sharing a stamp the one merged last counts"""
    out = []
    for d in OBS:
        seen = [(s, v) for s, cells in pubs for dd, v in cells if dd is d and (T is None or key(s) <= key(T))]      # forks on stamp <= T
        if not seen: continue
        def fold(group):
            cur = None
            for s_, v in group:
                if cur is None or not V.is_nan(v): cur = v
            return cur
        if what == 0:
            # the first publication stamp; publications sharing that stamp count as one (the one merged last wins, a NaN never overrides)
            first = [(s_, v) for s_, v in seen if key(s_) == key(seen[0][0])]
            out.append((d, fold(first))); continue
        cur = fold(seen)
        out.append((d, cur))
    return out

def h_read(k, what):
    def h(c):
        B = Bm(c); pubs = history(c, k)
        store = build(c, pubs)
        T = c.datetime('T', us_step = 3600 * 10**6)
        c.cover('read-between-stamps', X.And(key(T) >= key(pubs[0][0]), key(T) < key(pubs[-1][0])))
        c.cover('shared-stamp', key(pubs[0][0]) == key(pubs[1][0]))
        got = rows_of(B.bi_read(store, asof = T, what = what))
        want = expected(pubs, T, what)
        c.check('as-of-read-sees-exactly-what-had-been-published-by-T', len(got) == len(want) and all(g[0] == w[0] and feq(g[1], w[1]) for g, w in zip(got, want)))
    return h

def h_remerge(k):
    def h(c):
        B = Bm(c); pubs = history(c, k)
        for a, b in zip(pubs[:-1], pubs[1:]): c.assume(key(a[0]) < key(b[0]))        # with a shared stamp, re-merging the earlier publication legitimately makes it "the one merged last"
        store = build(c, pubs)
        j = c.choice('again', k)
        stamp, cells = pubs[j]
        again = B.bi_merge(store, mkseries(c, [v for d, v in cells], [d for d, v in cells]), asof = stamp)
        T = c.datetime('T', us_step = 3600 * 10**6)
        a = rows_of(B.bi_read(store, asof = T)); b = rows_of(B.bi_read(again, asof = T))
        c.check('merging-a-version-already-in-the-store-changes-no-as-of-read', len(a) == len(b) and all(x[0] == y[0] and feq(x[1], y[1]) for x, y in zip(a, b)))
    return h

def gate_model(stride = 7):
    """the real bi_merge / bi_read under the real pandas vs under the minipd model, on an exhaustive small domain of concrete histories"""
    import pyg_base._bitemporal as RB
    nan = float('nan')
    stamps = [_rdt.datetime(2021, 1, 1) + _rdt.timedelta(days = i) for i in range(3)]
    covers = [(0,), (1,), (0, 1)]; vals = [1.0, 2.0, nan]
    Ts = [_rdt.datetime(2020, 12, 31)] + stamps + [_rdt.datetime(2021, 1, 1, 12), _rdt.datetime(2021, 2, 1)]
    cases = []
    for k in (1, 2, 3):
        for st in itertools.combinations_with_replacement(range(3), k):
            for cv in itertools.product(covers, repeat = k):
                cells = sum(len(x) for x in cv)
                for vv in itertools.product(vals, repeat = cells):
                    if k == 3 and len(set(vv)) == 1 and vv[0] == 1.0 and cells > 3: continue
                    it = iter(vv); pubs = [(stamps[s], [(OBS[j], next(it)) for j in cov]) for s, cov in zip(st, cv)]
                    cases.append(pubs)
    cases = cases[::stride]
    import pandas as rpd
    def run(B, mk):
        out = []
        for pubs in cases:
            store = None
            for stamp, cells in pubs:
                store = B.bi_merge(store, mk([v for d, v in cells], [d for d, v in cells]), asof = stamp)
            out.append([rows_of(B.bi_read(store, asof = T, what = w)) for T in Ts for w in (-1, 0)])
        return out
    real = run(RB, lambda v, i: rpd.Series(v, rpd.DatetimeIndex(i), dtype = float))
    setup()
    model = run(_B['B'], lambda v, i: minipd.Series(list(v), list(i)))
    n = 0
    def same(a, b): return len(a) == len(b) and all(x[0] == y[0] and (x[1] == y[1] or (x[1] != x[1] and y[1] != y[1])) for x, y in zip(a, b))
    for pubs, ra, ma in zip(cases, real, model):
        for x, y in zip(ra, ma):
            n += 1
            if not same(x, y): return False, dict(mismatch = str(pubs), real = str(x), model = str(y))
    return True, dict(comparisons = n, histories = len(cases))

def obligations(tier):
    q = tier == 'quick'
    obs = [Ob('gate.minipd-vs-pandas', minipd.gate, engine = 'gate', desc = 'the 1-d pandas model equals the real pandas on an exhaustive small grid'),
           Ob('gate.bitemporal-model', (lambda: gate_model(60)) if q else (lambda: gate_model(7)), engine = 'gate', budget_s = 900, desc = 'bi_merge / bi_read under the DataFrame model == under the real pandas on an exhaustive small domain of histories')]
    covers = ['d0', 'd1', 'both']
    for k in ((2, 3) if q else (2, 3, 4)):
        for what in (-1, 0):
            for i, cv in enumerate(covers):
                for j, cw in enumerate(covers):
                    if k == 4 and what == 0 and i != j: continue
                    obs.append(Ob('read.%d.what%d.%s-%s' % (k, what, cv, cw), h_read(k, what), setup = setup, pins = {'cover0': i, 'cover1': j}, budget_s = 400 if k < 4 else 2400, fuel = 6000,
                                  desc = 'bi_read(asof=T, what=%d) after merging %d publications (first covers %s, second %s)' % (what, k, cv, cw)))
    for k in ((2,) if q else (2, 3)):
        for i, cv in enumerate(covers):
            obs.append(Ob('remerge.%d.%s' % (k, cv), h_remerge(k), setup = setup, pins = {'cover0': i}, budget_s = 400 if q else 2400, fuel = 6000, desc = 're-merging a publication already in the store changes no read (%d publications)' % k))
    return obs
