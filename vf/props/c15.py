"""C15 tree flatten/rebuild are inverse; tree_update is a non-destructive deep merge."""
import copy as _copy
from vf.runner import Ob
from vf.symx import core, shims, ops as X
from . import values as V

FUNCS = ['pyg_base._dict:tree_items', 'pyg_base._dict:tree_keys', 'pyg_base._dict:tree_values', 'pyg_base._dict:items_to_tree', 'pyg_base._dict:_tree_setitem',
         'pyg_base._dict:tree_update', 'pyg_base._dict:tree_getitem', 'pyg_base._dict:tree_get', 'pyg_base._dict:tree_setitem', 'pyg_base._dict:Dict.__add__',
         'pyg_base._tree:tree_to_table', 'pyg_base._table_to_tree:table_to_tree', 'pyg_base._eq:in_']
BOUNDS = dict(trees = 'every tree of depth <= 2 with 1..2 children per branch over keys a, b, c (and a key holding the path separator, v.1), branches of type dict / Dict; the shape is chosen by symbolic selectors; thorough adds depth 3 (round trip: leaves None / int; update: one side of depth 3 (leaves None / int) against the other of depth 2, root key sets not both of two keys)',
              leaves = 'None | any int | string 2-pool | a 2-element list of ints', pairs = 'all pairs (t, u) of such trees incl. overlapping branches and leaf-vs-branch conflicts; ignore lists [None], [None, 0]',
              patterns = '1..4 wildcards, literal segments in between, tables of <= 2 rows with unique paths')
OUTSIDE = ['trees deeper than 3 or wider than 2', 'empty branches (excluded by the statement)', 'non-string keys']
ASSUMPTIONS = ['tree shapes are enumerated by solver-chosen selectors (concrete python dicts per path); leaf contents are symbolic']

KEYS = 'abc'
LEAF = ['none', 'int', 'list']

def leaf(c, name, kinds = None):
    k = c.pick(name + '.leaf', kinds or LEAF)
    if k == 'none': return None
    if k == 'int': return c.int(name + '.i', -5, 5)
    if k == 'str': return c.pick(name + '.s', ['x', 'y'])
    return [c.int(name + '.l0', -5, 5), 7]

def tree(c, name, depth, cls = dict, root = True, kinds = None):
    """a branch with 1..2 children; each child a leaf or (depth permitting) a sub-branch"""
    ks = c.pick(name + '.keys', [('a',), ('b',), ('a', 'b'), ('b', 'c'), ('v.1',), ('a', 'v.1')] if root else [('a',), ('a', 'b')])      # 'v.1': a key holding the path separator
    out = cls()
    for k in ks:
        sub = depth > 1 and c.choice('%s.%s.isbranch' % (name, k), 2) == 1
        out[k] = tree(c, '%s.%s' % (name, k), depth - 1, cls, False, kinds) if sub else leaf(c, '%s.%s' % (name, k), kinds)
    return out

def snapshot(t):
    """structure with the very same leaf objects"""
    if isinstance(t, dict): return (type(t), [(k, snapshot(v)) for k, v in t.items()])
    if isinstance(t, list): return ('list', id(t), list(t))
    return ('leaf', t)
def same_snapshot(t, s):
    if isinstance(t, dict):
        return s[0] is type(t) and [k for k, _ in s[1]] == list(t.keys()) and all(same_snapshot(t[k], v) for k, v in s[1])
    if isinstance(t, list): return s[0] == 'list' and s[1] == id(t) and len(t) == len(s[2]) and all(a is b for a, b in zip(t, s[2]))
    return s[0] == 'leaf' and s[1] is t

def deq(a, b):
    """structural equality of trees: same keys (any order), branches recursively, leaves the very same objects"""
    if isinstance(a, dict) or isinstance(b, dict):
        return isinstance(a, dict) and isinstance(b, dict) and set(a.keys()) == set(b.keys()) and all(deq(a[k], b[k]) for k in a)
    return a is b

def is_ignored(v, ignore):
    for g in ignore:
        if v is None or g is None:
            if v is None and g is None: return True
        elif isinstance(v, (str, list)) or isinstance(g, (str, list)):
            pass
        elif v == g: return True                      # forks on symbolic ints
    return False

def merge(t, u, ignore = ()):
    """oracle: recursive merge, u's leaves override, branches on both sides merge, the rest of t is kept"""
    if isinstance(t, dict) and isinstance(u, dict):
        out = dict(t)
        for k, v in u.items():
            if k in t: out[k] = merge(t[k], v, ignore)
            else: out[k] = merge_new(v)
        return out
    if isinstance(u, dict): return merge_new(u)       # branch replaces leaf
    if is_ignored(u, ignore): return t                # an ignored leaf does not overwrite what exists (leaf or branch)
    return u
def merge_new(u):
    return {k: merge_new(v) for k, v in u.items()} if isinstance(u, dict) else u

def paths(t, pre = ()):
    out = []
    for k, v in t.items():
        out += paths(v, pre + (k,)) if isinstance(v, dict) else [pre + (k, v)]
    return out

def h_roundtrip(depth, cls, kinds = None):
    def h(c):
        import pyg_base as P
        t = tree(c, 't', depth, cls, kinds = kinds); snap = snapshot(t)
        items = P.tree_items(t)
        c.check('tree_items-lists-every-path-with-its-leaf', len(items) == len(paths(t)) and all(a[:-1] == b[:-1] and a[-1] is b[-1] for a, b in zip(items, paths(t))))
        c.check('items_to_tree-inverts-tree_items', deq(P.items_to_tree(items), t))
        c.check('tree_keys-are-the-paths-in-order', P.tree_keys(t) == [i[:-1] for i in items])
        c.check('tree_values-are-the-leaves-in-order', len(P.tree_values(t)) == len(items) and all(a is b[-1] for a, b in zip(P.tree_values(t), items)))
        for it in items:
            dotted = any('.' in k for k in it[:-1])                    # a dotted string path is ambiguous when a key holds the separator: only the list form is claimed then
            c.check('tree_getitem-returns-the-leaf', P.tree_getitem(t, list(it[:-1])) is it[-1] and (dotted or (P.tree_getitem(t, '.'.join(it[:-1])) is it[-1] and P.tree_get(t, '.'.join(it[:-1])) is it[-1])))
        c.check('tree-unchanged', same_snapshot(t, snap))
    return h

def h_update(depth, cls, ignore, depth_u = None):
    def h(c):
        import pyg_base as P
        # the merge only looks at t's structure, and at u's leaves only to see whether they are ignored: t's leaves are ints, u's None / int / list
        t = tree(c, 't', depth, cls, kinds = ['int']); u = tree(c, 'u', depth_u or depth, dict, kinds = ['none', 'int'] if (ignore or (depth_u or depth) >= 3) else ['none', 'int', 'list'])
        st, su = snapshot(t), snapshot(u)
        kw = dict(ignore = list(ignore)) if ignore else {}
        r = P.tree_update(t, u, **kw)
        want = merge(t, u, ignore)
        if set(t) & set(u): c.cover('overlap'); c.cover('leaf-vs-branch', any(k in t and isinstance(t[k], dict) != isinstance(u[k], dict) for k in u))
        c.check('tree_update-is-the-recursive-merge', deq(r, want))
        c.check('result-type-kept', type(r) is type(t))
        c.check('t-not-modified-at-any-depth', same_snapshot(t, st))
        c.check('u-not-modified-at-any-depth', same_snapshot(u, su))
        if not ignore:
            c.check('update-with-itself-is-identity', deq(P.tree_update(t, t), t) and same_snapshot(t, st))
            c.check('update-with-empty-is-identity', deq(P.tree_update(t, {}), t) and P.tree_update(t, {}) is not t)
            if cls is not dict:
                r2 = t + u
                c.check('Dict-plus-dict-is-the-same-merge', deq(r2, want) and same_snapshot(t, st) and same_snapshot(u, su))
    return h

def h_update_shared(cls):
    """a tree in which the very same branch object hangs under two keys: an update below one of them must not show below the other"""
    def h(c):
        import pyg_base as P
        shared = cls(); shared['a'] = c.int('s.a', -5, 5)
        if c.choice('s.two', 2): shared['b'] = c.int('s.b', -5, 5)
        t = cls(); t['a'] = shared; t['b'] = shared
        u = tree(c, 'u', 2, dict, kinds = ['none', 'int'])
        st, su = snapshot(t), snapshot(u)
        r = P.tree_update(t, u)
        c.check('tree_update-is-the-recursive-merge-also-when-t-shares-a-branch-object', deq(r, merge(t, u)))
        c.check('t-not-modified-at-any-depth', same_snapshot(t, st) and t['a'] is t['b'])
        c.check('u-not-modified-at-any-depth', same_snapshot(u, su))
        if cls is not dict: c.check('Dict-plus-dict-is-the-same-merge', deq(t + u, merge(t, u)) and same_snapshot(t, st))
    return h

PATTERNS = ['k/%x', '%x/%y', 'k/%x/w/%y', '%x/%y/%z', 'k/%x/%y/w/%z', '%x/%y/%z/%q']
def h_table(pattern, nrows):
    def h(c):
        import pyg_base as P
        from pyg_base._table_to_tree import table_to_tree
        from pyg_base._tree import tree_to_table
        wild = [p[1:] for p in pattern.split('/') if p.startswith('%')]
        rows = []
        for i in range(nrows):
            row = {}
            for w in wild[:-1]: row[w] = c.pick('r%d.%s' % (i, w), ['p', 'q'])
            row[wild[-1]] = [c.int('r%d.l0' % i, -5, 5), 7][:c.choice('r%d.llen' % i, 3)] if c.choice('r%d.islist' % i, 2) else V.scalar(c, 'r%d.leaf' % i, ['int', 'none', 'str'], strs = ['s'])     # a list leaf (of 0..2 elements) is one leaf
            rows.append(row)
        keyof = lambda r: tuple(r[w] for w in wild[:-1])
        if len(set(keyof(r) for r in rows)) < len(rows): return           # rows must have unique paths
        t = table_to_tree(None, pattern, rows, base = dict)
        back = tree_to_table(t, pattern)
        c.check('tree_to_table-inverts-table_to_tree', len(back) == len(rows) and all(any(keyof(b) == keyof(r) and b[wild[-1]] is r[wild[-1]] for b in back) for r in rows))
        t2 = table_to_tree(None, pattern, back, base = dict)
        c.check('table_to_tree-inverts-tree_to_table', deq(t2, t))
    return h

def obligations(tier):
    from pyg_base import Dict
    q = tier == 'quick'
    obs = []
    shapes = [('a',), ('b',), ('a', 'b'), ('b', 'c')]
    for cls in (dict, Dict):
        for i, ks in ((4, ('v.1',)), (5, ('a', 'v.1'))):
            obs.append(Ob('roundtrip.%s.dotted-key.%s' % (cls.__name__, ''.join(ks)), h_roundtrip(2, cls), pins = {'t.keys': i}, budget_s = 300, desc = 'the round trip on trees with a key that holds the path separator (root keys %s)' % (ks,)))
            for j, ku in ((4, ('v.1',)), (0, ('a',))):
                obs.append(Ob('update.%s.dotted-key.%s-%s' % (cls.__name__, ''.join(ks), ''.join(ku)), h_update(2, cls, ()), pins = {'t.keys': i, 'u.keys': j}, budget_s = 300,
                              desc = 'tree_update on trees with a key that holds the path separator (t root keys %s, u root keys %s)' % (ks, ku)))
    for cls in (dict, Dict):
        for i, ks in enumerate(shapes):
            obs.append(Ob('roundtrip.%s.%s' % (cls.__name__, ''.join(ks)), h_roundtrip(2, cls), pins = {'t.keys': i}, budget_s = 300,
                          desc = 'items_to_tree(tree_items(t)) == t, keys/values projections, tree_getitem for every path (depth 2, root keys %s)' % (ks,)))
            if not q: obs.append(Ob('roundtrip3.%s.%s' % (cls.__name__, ''.join(ks)), h_roundtrip(3, cls, ['none', 'int']), pins = {'t.keys': i}, budget_s = 1500, fuel = 40000, max_paths = 200000,
                          desc = 'the same on trees of depth 3 (leaves None / int; root keys %s)' % (ks,)))
    for cls in (dict, Dict):
        for ign in ((), (None,), (None, 0)):
            if q and cls is Dict and ign == (None, 0): continue
            for i, ks in enumerate(shapes):
                for j, ku in enumerate(shapes):
                    obs.append(Ob('update.%s.%s.%s-%s' % (cls.__name__, 'ign%d' % len(ign), ''.join(ks), ''.join(ku)), h_update(2, cls, ign), pins = {'t.keys': i, 'u.keys': j},
                                  budget_s = 300, desc = 'tree_update(t,u) == recursive merge, t and u untouched at any depth, identities (depth 2; t a %s, ignore %s)' % (cls.__name__, list(ign))))
                    if not q and ign != (None, 0) and len(ks) + len(ku) < 4:
                        for dt_, du_ in ((3, 2), (2, 3)):
                            obs.append(Ob('update%d%d.%s.%s.%s-%s' % (dt_, du_, cls.__name__, 'ign%d' % len(ign), ''.join(ks), ''.join(ku)), h_update(dt_, cls, ign, du_), pins = {'t.keys': i, 'u.keys': j},
                                          budget_s = 1500, max_paths = 200000, desc = 'the same with t of depth %d and u of depth %d (t a %s, ignore %s)' % (dt_, du_, cls.__name__, list(ign))))
    for cls in (dict, Dict):
        for j, ku in enumerate(shapes):
            obs.append(Ob('update.shared-branch.%s.%s' % (cls.__name__, ''.join(ku)), h_update_shared(cls), pins = {'u.keys': j}, budget_s = 300, desc = 'tree_update on a tree whose two keys hold the very same branch object (u root keys %s)' % (ku,)))
    for p in PATTERNS:
        for n in (1, 2):
            obs.append(Ob('table.%s.%d' % (p.replace('/', '_').replace('%', ''), n), h_table(p, n), budget_s = 300, desc = 'table_to_tree / tree_to_table inverse for pattern %s, %d rows' % (p, n)))
    return obs
