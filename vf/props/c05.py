"""C05 Calendar business-day arithmetic agrees with day-by-day counting."""
import datetime as _rdt, builtins, z3
from vf.runner import Ob
from vf.symx import core, shims, ops as X, rrule_stub, rewrite
from vf.symx.core import US_DAY, ORD_MIN, ORD_MAX, SymDatetime, SymInt, mkbool, mkint, zi, zb
from .dates_common import *

FUNCS = ['pyg_base._drange:Calendar.is_bday', 'pyg_base._drange:Calendar.is_holiday', 'pyg_base._drange:Calendar.adjust', 'pyg_base._drange:Calendar.add',
         'pyg_base._drange:Calendar._populate', 'pyg_base._drange:Calendar.bdays', 'pyg_base._drange:Calendar.drange', 'pyg_base._drange:Calendar.__init__',
         'pyg_base._drange:calendar', 'pyg_base._dates:ymd', 'pyg_base._dates:dt']
BOUNDS = dict(calendar = 'range [t0, t0+W] with t0 any day of 1900-2300 (so every weekday / month-end alignment); W = 14 quick, 21 thorough',
              holidays = 'ANY subset of the W+1 days of the range (one boolean per day, all 2^(W+1) sets at once), subject to the stated run-length assumption',
              weekend = '{Sat-Sun, Fri-Sat, Sun only, none}', adj = '{f, p, m}', n = '|n| <= 1 (single-step path) and 2 <= |n| <= 3 quick / 5 thorough (indexed path); one obligation per n',
              t = 'any day of the range at least 6 days from either end (results leaving the range raise KeyError by design)')
OUTSIDE = ['n beyond the bound (the statement says 40; the indexed path is the same code for every |n| >= 2, but only |n| <= 5 is explored)',
           'calendars longer than W days', 'runs of more than 4 consecutive non-business days', 'timeseries arguments', 'trade_date / is_trading (time-of-day sessions)']
ASSUMPTIONS = ['the probe day carries an ordinal (for weekdays) and civil fields (for the month test of the modified-following convention) that are NOT tied to each other: every weekday is combined with every valid (year, month, day) -- a superset of the real calendar, so proofs carry over; counterexamples are rebuilt from the ordinal and must replay',
               'no run of more than 4 consecutive non-business days inside the range (bounds the adjust/add loops; longer runs would hit the unwinding bound and be reported inconclusive)',
               'the Calendar object is constructed directly in its documented state (weekend, holidays, t0, t1, adj) with the holiday set a symbolic predicate; the real constructor and '
               'registry are exercised with explicit symbolic holiday lists in the registry obligations',
               'dateutil.rrule replaced by the validated contract stub; its weekday filter and the holiday filter of _populate produce guarded lists (no fork per day)',
               '_drange.py is loaded through the AST rewrite of vf/symx/rewrite.py (identity on concrete values)']

WEEKENDS = dict(satsun = [5, 6], frisat = [4, 5], sun = [6], none = [])
MARGIN = 6

_R = {}
def setup():
    setup_dates()
    import pyg_base._drange as R0
    rr = rrule_stub.make(shims.shim_datetime)
    def rrule(freq, interval = 1, dtstart = None, until = None, byweekday = None, **kw):
        # daily recurrence over a window of known length with a weekday filter -> guarded list instead of a fork per day
        if byweekday is not None and (core.is_sym(dtstart) or core.is_sym(until)):
            span = z3.simplify((until - dtstart).days.e) if core.is_sym((until - dtstart).days) else (until - dtstart).days
            if z3.is_expr(span):
                if not z3.is_int_value(span): raise core.Unsupported('calendar window of symbolic length')
                span = span.as_long()
            allowed = [w.weekday for w in byweekday]; out = []
            for i in range(span + 1):
                d = dtstart + _rdt.timedelta(i)
                g = rewrite.sym_in(d.weekday(), allowed)
                out.append((zb(g), d))
            return rewrite.GList(out)
        return rr(freq, interval = interval, dtstart = dtstart, until = until, byweekday = byweekday, **kw)
    R = rewrite.load('pyg_base._drange', dict(datetime = shims.dtmod, int = shims.shim_int, rrule = rrule))
    _R['R'] = R
    return R

def R():
    if core.CUR is not None and core.CUR.mode == 'sym': return _R['R']
    import pyg_base._drange as R0
    return R0

class World:
    """a calendar with an arbitrary holiday set over [base, base+W], in either mode, plus the day-by-day oracle"""
    def __init__(self, c, W, weekend, adj):
        self.c = c; self.W = W; self.wk = WEEKENDS[weekend]; self.adj = adj
        # the probe day t carries civil fields (pre-seeded for its neighbours, where adjust walks); the range is placed around it
        self.t = c.day_both('t', ORD_MIN + 40, ORD_MAX - 40, near = (-12, 12), link = False)
        self.toff = c.int('t.off', MARGIN, W - MARGIN)
        self.base = self.t - (shims.shim_timedelta if c.mode == 'sym' else _rdt.timedelta)(days = self.toff)
        self.h = [c.bool('hol%d' % i) for i in range(W + 1)]
        b = X.ordinal(self.base)
        # assumption: at least one business day in every 5 consecutive days of the range
        for i in range(W - 3):
            c.assume(X.Or([self.bd_at(i + j) for j in range(5)]))
        if c.mode == 'sym':
            Rm = R(); bz = zi(b)
            hol = lambda o: z3.Or([z3.And(o == bz + i, zb(self.h[i])) for i in range(W + 1)])
            cal = Rm.Calendar.__new__(Rm.Calendar)
            builtins.dict.update(cal, weekend = list(self.wk), holidays = rewrite.SymSet(hol), key = None, t0 = self.base, t1 = self.base + _rdt.timedelta(W), adj = adj)
        else:
            hs = [self.base + _rdt.timedelta(i) for i in range(W + 1) if self.h[i]]
            cal = R().Calendar(None, holidays = hs, weekend = list(self.wk), t0 = self.base, t1 = self.base + _rdt.timedelta(W), adj = adj)
        self.cal = cal
    def wkend_at(self, i):
        wd = (X.ordinal(self.base) + i + 6) % 7
        return X.Or([wd == w for w in self.wk]) if self.wk else False
    def bd_at(self, i):
        """is day base+i (0 <= i <= W, concrete i) a business day"""
        return X.And(X.Not(self.wkend_at(i)), X.Not(self.h[i]))
    def day(self, name, lo = MARGIN, hi = None):
        if name == 't': return self.t, self.toff
        off = self.c.int(name, lo, self.W - MARGIN if hi is None else hi)
        return self.base + (shims.shim_timedelta if self.c.mode == 'sym' else _rdt.timedelta)(days = off), off
    def off(self, t):
        return X.ordinal(t) - X.ordinal(self.base)
    def bd(self, off):
        """business-day predicate at a (possibly symbolic) offset within the range"""
        return X.Or([X.And(off == i, self.bd_at(i)) for i in range(self.W + 1)])
    def cnt(self, off):
        """number of business days at offsets <= off"""
        return X.Sum([X.If(X.And(self.bd_at(i), i <= off), 1, 0) for i in range(self.W + 1)])
    def adj_f(self, off):
        """oracle: offset of the first business day on or after off (exists within 5 days by the assumption)"""
        r = off + 4
        for j in (3, 2, 1, 0): r = X.If(self.bd(off + j), off + j, r)
        return r
    def adj_p(self, off):
        r = off - 4
        for j in (3, 2, 1, 0): r = X.If(self.bd(off - j), off - j, r)
        return r

def h_is_bday(W, wk):
    def h(c):
        w = World(c, W, wk, 'm'); t, off = w.day('p', 0, W)
        c.cover('holiday', X.Or([X.And(off == i, w.h[i]) for i in range(W + 1)]))
        c.check('is_bday-iff-not-weekend-and-not-holiday', X.Iff(w.cal.is_bday(t), w.bd(off)))
        c.check('is_holiday-is-the-complement', X.Iff(w.cal.is_holiday(t), X.Not(w.bd(off))))
    return h

def h_adjust(W, wk, adj):
    def h(c):
        w = World(c, W, wk, adj); t, off = w.day('t')
        c.cover('non-business-start', X.Not(w.bd(off)))
        r = w.cal.adjust(t, adj); ro = w.off(r)
        f, p = w.adj_f(off), w.adj_p(off)
        want = want_adjust(w, c, t, off, adj)
        if adj == 'm':
            c.cover('month-changes', month_changes(w, c, t, off, f)); c.cover('year-changes', X.And(month_changes(w, c, t, off, f), t.month == 12))
        c.check('adjust-%s' % adj, X.And(ro == want, X.us_of_day(r) == 0))
        c.check('adjust-default-uses-calendar-convention', key(w.cal.adjust(t)) == key(r))
    return h

def month_changes(w, c, t, off, f):
    """does the following business day (offset f, 0..4 days after t) fall in another month than t"""
    td = shims.shim_timedelta if c.mode == 'sym' else _rdt.timedelta
    return X.Or([X.And(f - off == j, (t + td(days = j)).month != t.month) for j in range(5)])

def want_adjust(w, c, t, off, adj):
    f, p = w.adj_f(off), w.adj_p(off)
    if adj == 'f': return f
    if adj == 'p': return p
    return X.If(month_changes(w, c, t, off, f), p, f)

def h_add(W, wk, adj, nlo, nhi):
    def h(c):
        w = World(c, W, wk, adj); t, off = w.day('t')
        n = c.int('n', nlo, nhi)
        a = want_adjust(w, c, t, off, adj)
        if nlo < 0: c.cover('negative-n', n < 0)
        c.cover('non-business-start', X.Not(w.bd(off)))
        try:
            r = w.cal.add(t, n)
        except KeyError:
            return                                    # result outside the calendar range: accepted by the statement
        ro = w.off(r)
        if X.Or(ro < 0, ro > w.W): return             # the single-step path can walk out of [t0, t1]: outside the calendar's range, not claimed
        c.cover('result-inside-range')
        c.check('add-lands-on-business-day', w.bd(ro))
        c.check('add-is-nth-business-day-from-adjust', w.cnt(ro) - w.cnt(a) == n)
        try:
            c.check('bdays-of-add-is-n', w.cal.bdays(t, r) == n)
        except KeyError:
            return
    return h

def h_roundtrip(W, wk, adj, N):
    def h(c):
        w = World(c, W, wk, adj); t, off = w.day('t'); n = c.int('n', N, N)
        c.assume(w.bd(off))
        try:
            r = w.cal.add(w.cal.add(t, n), -n)
        except KeyError:
            return
        c.cover('result-inside-range', n != 0)
        c.check('add-n-then-minus-n-returns', key(r) == key(t))
    return h

def h_paths_agree(W, wk, adj):
    def h(c):
        w = World(c, W, wk, adj); t, off = w.day('t')
        s = c.pick('sign', [1, -1])
        try:
            a = w.cal.add(t, 2 * s); b = w.cal.add(w.cal.add(t, s), s)
        except KeyError:
            return
        c.cover('result-inside-range')
        c.check('single-step-and-indexed-path-agree', key(a) == key(b))
    return h

def h_drange(W, wk, adj):
    def h(c):
        w = World(c, W, wk, adj); t, off = w.day('t')
        td = shims.shim_timedelta if c.mode == 'sym' else _rdt.timedelta
        j = c.pick('j', list(range(-6, 7)))                      # the other endpoint is t+j (concrete j per path: its civil fields are pre-seeded)
        u = t + td(days = j); uoff = off + j
        (t0, o0), (t1, o1) = ((t, off), (u, uoff)) if j >= 0 else ((u, uoff), (t, off))
        a0 = want_adjust_at(w, c, t0, o0, adj); a1 = want_adjust_at(w, c, t1, o1, adj)
        c.assume(a0 <= a1)
        try:
            res = w.cal.drange(t0, t1, '1b')
        except KeyError:
            return
        offs = [w.off(x) for x in res]
        if abs(j) >= 2: c.cover('several-days', len(res) >= 3)
        c.check('drange-count', len(res) == w.cnt(a1) - w.cnt(a0) + 1)
        c.check('drange-business-days-increasing-between-adjusted-endpoints',
                X.And([w.bd(o) for o in offs] + [x < y for x, y in zip(offs[:-1], offs[1:])] + [o >= a0 for o in offs] + [o <= a1 for o in offs] + [True]))
    return h

def want_adjust_at(w, c, t, off, adj):
    """as want_adjust, for a day t whose neighbours are pre-seeded relative to the probe day"""
    return want_adjust(w, c, t, off, adj)

def h_registry(c):
    """a calendar fetched by key reflects the holidays it was last registered with: one step from an arbitrary earlier registration"""
    Rm = R()
    td = shims.shim_timedelta if c.mode == 'sym' else _rdt.timedelta
    base = c.day('base', ORD_MIN + 10, ORD_MAX - 40)
    def hols(tag):
        n = c.choice(tag + '.n', 3)
        return [base + td(days = c.int('%s.%d' % (tag, i), 0, 13)) for i in range(n)]
    keys = ['K1', 'K2']
    k1 = c.pick('k1', keys); k2 = c.pick('k2', keys)
    H1 = hols('H1'); H2 = hols('H2')
    t0 = base; t1 = base + td(days = 13)
    Rm.calendars.clear()
    Rm.calendar(k1, H1)                                     # earlier history: some registration under k1 (default weekend and range)
    first = Rm.calendar(k1)
    probe = base + td(days = c.int('probe', 0, 13))
    def inlist(t, H): return X.Or([key(t) == key(x) for x in H]) if H else False
    wkend = probe.weekday() > 4
    c.check('fetched-calendar-reflects-first-registration', X.Iff(first.is_bday(probe), X.And(X.Not(wkend), X.Not(inlist(probe, H1)))))
    Rm.calendar(k2, H2)                                     # the step: (re-)registration under k2 (same or other key, possibly no holidays)
    c.cover('re-registration-same-key', k1 == k2); c.cover('re-registration-with-no-holidays', len(H2) == 0 and len(H1) > 0 and k1 == k2)
    got = Rm.calendar(k2)
    c.check('fetched-calendar-reflects-last-registration', X.Iff(got.is_bday(probe), X.And(X.Not(wkend), X.Not(inlist(probe, H2)))))
    if k1 != k2:
        c.check('other-key-unaffected', X.Iff(Rm.calendar(k1).is_bday(probe), X.And(X.Not(wkend), X.Not(inlist(probe, H1)))))
    Rm.calendars.clear()

def h_registry_indexed(c):
    """re-registering a key whose calendar has already built its business-day index: the calendar fetched afterwards answers the indexed path
    (add with |n| = 2) from the holidays it was last registered with.  Bounds: a 10-day range from any day of 1900-2300, one symbolic holiday per registration, probe day 2..4 days in"""
    Rm = R()
    td = shims.shim_timedelta if c.mode == 'sym' else _rdt.timedelta
    base = c.day('base', ORD_MIN + 10, ORD_MAX - 40); W = 9
    def hols(tag):
        return [base + td(days = c.int('%s.%d' % (tag, i), 0, W)) for i in range(1)]
    H1 = hols('H1'); H2 = hols('H2')
    t0 = base; t1 = base + td(days = W)
    Rm.calendars.clear()
    first = Rm.calendar('K', H1, t0 = t0, t1 = t1)
    poff = c.int('probe', 2, 4); probe = base + td(days = poff)
    try: first.add(probe, 2)                                 # the earlier history used the indexed path, so the index of the first registration exists
    except KeyError: pass
    Rm.calendar('K', H2, t0 = t0, t1 = t1)                   # the step: re-registration of the same key with other holidays
    got = Rm.calendar('K')
    def bd(i):
        d = base + td(days = i)
        return X.And(d.weekday() <= 4, X.Not(X.Or([key(d) == key(x) for x in H2]) if H2 else False))
    c.cover('holidays-differ', X.Or([X.Not(X.Or([key(x) == key(y) for y in H1]) if H1 else False) for x in H2]) if H2 else len(H1) > 0)
    sg = c.pick('sign', [1, -1])
    try: r = got.add(probe, 2 * sg)
    except KeyError: Rm.calendars.clear(); return
    ro = X.ordinal(r) - X.ordinal(base)
    c.check('indexed-add-lands-on-a-business-day-of-the-last-registration', X.Or([X.And(ro == i, bd(i)) for i in range(W + 1)]))
    c.check('indexed-add-agrees-with-two-single-steps-under-the-last-registration', key(r) == key(got.add(got.add(probe, sg), sg)))
    Rm.calendars.clear()

def h_two_calendars(c):
    """two calendars over the same range with different weekends, used one after the other in one process: the index of the second is its own
    (concrete range starting Monday 2024-01-01, one symbolic holiday, symbolic probe day)"""
    Rm = R()
    td = shims.shim_timedelta if c.mode == 'sym' else _rdt.timedelta
    base = _rdt.datetime(2024, 1, 1); W = 13
    hol = base + td(days = c.int('hol', 0, W)); probe = base + td(days = c.int('probe', 2, 5))
    wa, wb = c.pick('weekends', [([5, 6], [4, 5]), ([4, 5], [5, 6]), ([5, 6], [6])])
    A = Rm.Calendar('A', holidays = [hol], weekend = list(wa), t0 = base, t1 = base + _rdt.timedelta(W))
    B = Rm.Calendar('B', holidays = [hol], weekend = list(wb), t0 = base, t1 = base + _rdt.timedelta(W))
    try: A.add(probe, 2)
    except KeyError: pass
    sg = c.pick('sign', [1, -1])
    try: r = B.add(probe, 2 * sg)
    except KeyError: return
    c.check('second-calendar-lands-on-one-of-its-own-business-days', X.And(X.Not(X.Or([r.weekday() == w for w in wb])), key(r) != key(hol)))
    c.check('second-calendar-indexed-path-agrees-with-its-single-steps', key(r) == key(B.add(B.add(probe, sg), sg)))

def obligations(tier):
    q = tier == 'quick'; W = 14 if q else 21; N = 3 if q else 5
    S = setup
    obs = [Ob('gate.gregorian-theory', theory_gate, engine = 'gate', desc = 'Gregorian theory vs CPython date'),
           Ob('gate.rrule-contract', rrule_stub.gate, engine = 'gate', desc = 'rrule contract stub vs the real dateutil.rrule on a grid'),
           Ob('gate.neighbour-lemma', neighbour_gate, engine = 'gate', desc = 'civil fields of t+i, |i|<=27, as a case split on the fields of t: against CPython date')]
    for wk in list(WEEKENDS):
        obs.append(Ob('is_bday.%s' % wk, h_is_bday(W, wk), setup = S, desc = 'is_bday(t) iff t is neither a weekend day nor a holiday (weekend %s)' % wk))
    for wk in list(WEEKENDS):
        for adj in 'fpm':
            obs.append(Ob('adjust.%s.%s' % (wk, adj), h_adjust(W, wk, adj), setup = S, budget_s = 300, desc = 'adjust(t,%s) is the nearest business day per convention (weekend %s)' % (adj, wk)))
    full = [(wk, adj) for wk in WEEKENDS for adj in 'fpm']
    cfg_step = [('satsun', 'f'), ('satsun', 'p'), ('satsun', 'm'), ('frisat', 'm'), ('sun', 'm'), ('none', 'f')] if q else full
    # thorough: every configuration for the single-step path; the indexed path, the inverse laws and drange on a cross-section (the full product ran for hours)
    cfg_index = [('satsun', 'm'), ('satsun', 'f'), ('frisat', 'p')] if q else [('satsun', 'm'), ('satsun', 'f'), ('satsun', 'p'), ('frisat', 'p'), ('sun', 'm'), ('none', 'f')]
    cfg_more = [('satsun', 'm')] if q else [('satsun', 'm'), ('frisat', 'f'), ('sun', 'p')]
    for wk, adj in cfg_step:
        for i, sg in enumerate((-1, 0, 1)):
            obs.append(Ob('add.step.%s.%s.%d' % (wk, adj, sg), h_add(W, wk, adj, sg, sg), setup = S, budget_s = 400, desc = 'add(t,%d) (single-step path), weekend %s, adj %s' % (sg, wk, adj)))
    for wk, adj in cfg_index:
        for n in range(2, N + 1):
            obs.append(Ob('add.index.%s.%s.%d' % (wk, adj, n), h_add(W, wk, adj, n, n), setup = S, budget_s = 600, desc = 'add(t,%d) (indexed path)' % n))
            obs.append(Ob('add.index.%s.%s.%d' % (wk, adj, -n), h_add(W, wk, adj, -n, -n), setup = S, budget_s = 600, desc = 'add(t,%d) (indexed path)' % -n))
    for wk, adj in cfg_more:
        for n in range(-3, 4):
            if n: obs.append(Ob('roundtrip.%s.%s.%d' % (wk, adj, n), h_roundtrip(W, wk, adj, n), setup = S, budget_s = 600, desc = 'add(add(t,%d),%d)==t for a business day t' % (n, -n)))
        for i, sg in enumerate((1, -1)):
            obs.append(Ob('paths-agree.%s.%s.%d' % (wk, adj, sg), h_paths_agree(W, wk, adj), setup = S, pins = {'sign': i}, budget_s = 600, desc = 'add(t,%d)==add(add(t,%d),%d)' % (2 * sg, sg, sg)))
        for i, j in enumerate(range(-6, 7)):
            if q and j != 0: continue
            obs.append(Ob('drange.%s.%s.%d' % (wk, adj, j), h_drange(W, wk, adj), setup = S, pins = {'j': i}, budget_s = 600 if q else 2400,
                          desc = "Calendar.drange(t0,t1,'1b') lists exactly the business days between the adjusted endpoints (endpoints %d days apart)" % j))
    obs.append(Ob('registry', h_registry, setup = S, budget_s = 300, desc = 'calendar(key) reflects the last registration (one step from an arbitrary earlier registration)'))
    for i in range(3):
        obs.append(Ob('two-calendars.%d' % i, h_two_calendars, setup = S, pins = {'weekends': i}, budget_s = 600, desc = 'two calendars over the same range with different weekends used in one process: the second answers the indexed path from its own weekend'))
    for i, sg in enumerate((1, -1)):
        obs.append(Ob('registry.indexed.%d' % sg, h_registry_indexed, setup = S, pins = {'sign': i}, budget_s = 600, desc = 'after re-registering a key whose calendar had already built its index, add(t,%d) of the fetched calendar follows the last registration' % (2 * sg)))
    return obs
