"""C03 alignment puts all timeseries on the prescribed common index, values intact (1-d timeseries and bare arrays)."""
import datetime as _rdt
from vf.runner import Ob
from vf import minipd
from vf.symx import core, shims, ops as X
from .pandas_common import *
from . import values as V
from .dates_common import key
from .c08 import series, lookup, union_offsets

FUNCS = ['pyg_base._pandas:df_index', 'pyg_base._pandas:_df_index', 'pyg_base._pandas:_np_index', 'pyg_base._pandas:_index', 'pyg_base._pandas:_list', 'pyg_base._pandas:df_reindex',
         'pyg_base._pandas:_df_reindex', 'pyg_base._pandas:df_sync', 'pyg_base._pandas:presync.wrapped', 'pyg_base._pandas:_nona', 'pyg_base._pandas:_df_fillna', 'pyg_base._loop:loops._wrapped',
         'pyg_base._reducer:reducing.wrapped', 'pyg_base._reducer:reducer']
BOUNDS = dict(collections = '2..3 Series of 0..2 rows (thorough 3) with symbolic stamps in a common 7-day window and symbolic values incl. NaN, inside a list, a dict, or a dict holding a nested list, '
                            'mixed with a scalar, a string and None', policies = 'join in {ij, oj, lj, rj, explicit index}, fill method in {None, ffill, bfill}',
              arrays = 'collections of 2..3 bare arrays of symbolic lengths 0..3 with symbolic cells, every join policy')
OUTSIDE = ['multi-column frames and the column alignment (df_columns / df_recolumn)', 'tz-aware indices', 'more than 3 rows']
ASSUMPTIONS = ['pandas replaced by the minipd model, validated against the real pandas each run (intersection / union, reindex with method and limit as an as-of join on a sorted index, masks)']

JOINS = ['ij', 'oj', 'lj', 'rj']
def want_offsets(all_offs, join):
    if join == 'ij': return [o for o in all_offs[0] if all(any(o == p for p in offs) for offs in all_offs[1:])]
    if join == 'oj': return union_offsets(all_offs)
    if join == 'lj': return list(all_offs[0])
    return list(all_offs[-1])

def asof(offs, vs, o, method):
    """oracle for one aligned cell: own value if the series has the stamp; else NaN, or with ffill / bfill the last / next non-NaN observation strictly before / after"""
    v = lookup(offs, vs, o)
    if method is None: return float('nan') if v is None else v
    # the library drops NaN observations before an as-of reindex
    obs = [(oo, vv) for oo, vv in zip(offs, vs) if not V.is_nan(vv)]
    for oo, vv in obs:
        if oo == o: return vv
    if method == 'ffill':
        prev = [vv for oo, vv in obs if oo < o]
        return prev[-1] if prev else float('nan')
    nxt = [vv for oo, vv in obs if oo > o]
    return nxt[0] if nxt else float('nan')

def check_series(c, got, base, offs_want, src, method, label):
    g = rows(got)
    c.check(label + '-is-on-the-common-index', len(g) == len(offs_want) and all(key(p[0]) == key(base) + o * core.US_DAY for p, o in zip(g, offs_want)))
    for p, o in zip(g, offs_want):
        c.check(label + '-keeps-its-value-or-nan-or-the-as-of-fill', feq(p[1], asof(src[3], src[2], o, method)))

def h_sync(nrows, shape, join, method):
    def h(c):
        Pm = P(); base = c.day('base')
        k = 3 if shape in ('list3', 'nested') else 2
        ss = [series(c, 's%d' % i, nrows[i], base) for i in range(k)]
        scalar = c.int('scalar', -9, 9); text = 'keep-me'
        if shape == 'list': coll = [ss[0][0], scalar, ss[1][0], text, None]
        elif shape == 'list3': coll = [ss[0][0], ss[1][0], ss[2][0]]
        elif shape == 'dict': coll = dict(a = ss[0][0], n = scalar, b = ss[1][0], t = text)
        else: coll = dict(a = ss[0][0], inner = [ss[1][0], text, ss[2][0]], n = None)
        offs = want_offsets([s[3] for s in ss], join)
        c.cover('overlap', len(want_offsets([s[3] for s in ss], 'ij')) > 0) if all(nrows[:k]) else None
        r = Pm.df_sync(coll, join = join, method = method)
        c.check('container-structure-preserved', type(r) is type(coll) and len(r) == len(coll) and (not isinstance(coll, dict) or list(r.keys()) == list(coll.keys())))
        if shape in ('list', 'list3'):
            outs = [r[0], r[2]] if shape == 'list' else [r[0], r[1], r[2]]
            if shape == 'list': c.check('non-timeseries-pass-through-unchanged', r[1] is scalar and r[3] is text and r[4] is None)
        elif shape == 'dict':
            outs = [r['a'], r['b']]; c.check('non-timeseries-pass-through-unchanged', r['n'] is scalar and r['t'] is text)
        else:
            outs = [r['a'], r['inner'][0], r['inner'][2]]
            c.check('non-timeseries-pass-through-unchanged', r['inner'][1] is text and r['n'] is None and isinstance(r['inner'], list) and len(r['inner']) == 3)
        for i, o in enumerate(outs): check_series(c, o, base, offs, ss[i], method, 'series')
        for s in ss: c.check('inputs-unchanged', len(rows(s[0])) == len(s[3]) and all(feq(p[1], v) for p, v in zip(rows(s[0]), s[2])))
    return h

def h_reindex_explicit(n, m, method):
    def h(c):
        Pm = P(); base = c.day('base')
        s = series(c, 's', n, base); idx = series(c, 'idx', m, base, nan = False)
        r = Pm.df_reindex(dict(x = s[0], y = [s[0], 5]), idx[0], method = method)
        check_series(c, r['x'], base, idx[3], s, method, 'series'); check_series(c, r['y'][0], base, idx[3], s, method, 'nested-series')
        c.check('scalar-passes-through', r['y'][1] == 5)
    return h

def h_presync(join, na, nb):
    def h(c):
        Pm = P(); base = c.day('base')
        a = series(c, 'a', na, base); b = series(c, 'b', nb, base)
        seen = []
        f = Pm.presync(lambda x, y, z: (seen.append((x, y, z)), x)[1], index = join)
        r = f(a[0], dict(k = b[0]), z = 3)
        offs = want_offsets([a[3], b[3]], join)
        x, y, z = seen[0]
        check_series(c, x, base, offs, a, None, 'positional-argument'); check_series(c, y['k'], base, offs, b, None, 'series-nested-in-a-dict-argument')
        c.check('non-timeseries-argument-unchanged', z == 3)
    return h

def h_arrays(join, k):
    def h(c):
        Pm = P()
        lens = [c.choice('len%d' % i, 4) for i in range(k)]
        arrs = []; cells = []
        for i in range(k):
            isint = c.choice('int%d' % i, 2)                       # the dtype of each array is a selector: float or integer cells
            vs = [(c.int('a%d.%d' % (i, j), -9, 9) if isint else c.float('a%d.%d' % (i, j), allow = (core.FIN,), halves = 12)) for j in range(lens[i])]
            cells.append(vs)
            arrs.append(minipd.Arr(vs, dtype = 'int64' if isint else 'float64') if c.mode == 'sym' else __import__('numpy').array([(int(v) if isint else float(v)) for v in vs], dtype = 'int64' if isint else float))
        n = min(lens) if join == 'ij' else max(lens) if join == 'oj' else lens[0] if join == 'lj' else lens[-1]
        c.cover('different-lengths', len(set(lens)) > 1)
        r = Pm.df_sync(list(arrs), join = join)
        for i in range(k):
            got = list(r[i]); vs = cells[i]
            want = vs[len(vs) - n:] if len(vs) >= n else [float('nan')] * (n - len(vs)) + vs
            c.check('arrays-are-aligned-at-the-end', len(got) == n and all(feq(g, w) for g, w in zip(got, want)))
    return h

def obligations(tier):
    q = tier == 'quick'; N = 2 if q else 3
    S = setup_pandas
    obs = [Ob('gate.minipd-vs-pandas', minipd.gate, engine = 'gate', desc = 'the pandas model equals the real pandas on an exhaustive small grid')]
    shapes2 = [(a, b) for a in range(N + 1) for b in range(N + 1) if not (q and a + b > 3)]
    for join in JOINS:
        for method in (None, 'ffill', 'bfill'):
            for (a, b) in shapes2:
                for shape in ('list', 'dict'):
                    if shape == 'dict' and (a, b) not in ((1, 2), (2, 1), (0, 2)): continue
                    obs.append(Ob('sync.%s.%s.%s.%dx%d' % (shape, join, method, a, b), h_sync((a, b, 0), shape, join, method), setup = S, budget_s = 300 if q else 1500,
                                  desc = 'df_sync of a %s with Series of %d and %d rows (+ scalar, string, None), join %s, method %s' % (shape, a, b, join, method)))
            for trip in ([(1, 1, 1), (2, 1, 1)] if q else [(1, 1, 1), (2, 1, 1), (1, 2, 2), (2, 2, 1)]):
                for shape in ('list3', 'nested'):
                    obs.append(Ob('sync.%s.%s.%s.%s' % (shape, join, method, 'x'.join(map(str, trip))), h_sync(trip, shape, join, method), setup = S, budget_s = 300 if q else 1500,
                                  desc = 'df_sync of three Series (%s rows) in a %s, join %s, method %s' % (trip, 'list' if shape == 'list3' else 'dict with a nested list', join, method)))
    for method in (None, 'ffill', 'bfill'):
        for n, m in ([(1, 2), (2, 2)] if q else [(1, 2), (2, 2), (3, 2), (2, 3)]):
            obs.append(Ob('reindex.explicit.%s.%dx%d' % (method, n, m), h_reindex_explicit(n, m, method), setup = S, budget_s = 300, desc = 'df_reindex onto an explicitly supplied index, method %s' % method))
    for join in JOINS:
        for na, nb in ([(1, 1), (2, 1)] if q else [(1, 1), (2, 1), (2, 2)]):
            obs.append(Ob('presync.%s.%dx%d' % (join, na, nb), h_presync(join, na, nb), setup = S, budget_s = 300, desc = 'a presync-decorated function sees its (nested) timeseries arguments on the common index, join %s' % join))
        for k in (2, 3):
            obs.append(Ob('arrays.%s.%d' % (join, k), h_arrays(join, k), setup = S, budget_s = 300, desc = '%d bare arrays of lengths 0..3 are aligned at the end (join %s)' % (k, join)))
    return obs
