"""engine C: a small pure-python reference model of the slice of pandas that pyg_base._pandas uses on 1-d timeseries.

pandas and numpy store their data in C arrays, which cannot hold solver terms; the code under test is therefore run against these
classes (labels and cells may be proxies).  Every method here states pandas' documented behaviour on a *sorted, duplicate-free* index and is
compared with the real pandas on an exhaustive small grid at the start of every run (gate() below): a mismatch is a harness error, never
a property verdict.  Only what is listed here is modelled; anything else raises Unsupported (-> inconclusive)."""
import datetime as _rdt, math, builtins, z3
from vf.symx import core
from vf.symx.core import Unsupported, SymFloat, SymBool, mkbool

def _isnan(v):
    if isinstance(v, SymFloat): return mkbool(v.kind == core.NAN)
    if isinstance(v, float): return v != v
    return False
NAN = float('nan')

class Mask(list):
    """boolean vector (python bools or SymBools)"""
    def __invert__(self): return Mask([core.sym_not(b) for b in self])
    def __and__(self, o): return Mask([_and(a, b) for a, b in zip(self, o)])
    def __or__(self, o): return Mask([_or(a, b) for a, b in zip(self, o)])
    @property
    def values(self): return self
    @property
    def shape(self): return (len(self),)
def _and(a, b):
    if isinstance(a, SymBool) or isinstance(b, SymBool): return mkbool(z3.And(core.zb(a), core.zb(b)))
    return bool(a) and bool(b)
def _or(a, b):
    if isinstance(a, SymBool) or isinstance(b, SymBool): return mkbool(z3.Or(core.zb(a), core.zb(b)))
    return bool(a) or bool(b)

class Arr:
    """stand-in for a 1-d ndarray (deliberately not a list subclass: the code under test treats lists and arrays differently)"""
    def __init__(self, items = (), dtype = None):
        self._a = list(items._a if isinstance(items, Arr) else items)
        if dtype is not None: self.dtype = dtype
    def __len__(self): return len(self._a)
    def __iter__(self): return iter(self._a)
    def __getitem__(self, i):
        if isinstance(i, slice): return Arr(self._a[i])
        if isinstance(i, (Mask, Arr, list)): return Arr([v for v, k in zip(self._a, list(i)) if k])
        return self._a[i]
    @property
    def shape(self): return (len(self._a),)
    @property
    def T(self): return self
    @property
    def values(self): return self
    dtype = 'float64'
    def copy(self): return Arr(self._a)
    def __invert__(self): return Arr([core.sym_not(b) for b in self._a])
    def __eq__(self, o):
        if isinstance(o, (Arr, list)): return Arr([a == b for a, b in zip(self._a, list(o))])
        return Arr([a == o for a in self._a])
    __hash__ = None
    def __repr__(self): return 'minipd.Arr(%r)' % (self._a,)

class Index:
    def __init__(self, labels = (), name = None):
        self._l = list(labels._l if isinstance(labels, Index) else labels); self.name = name
    def __len__(self): return len(self._l)
    def __iter__(self): return iter(self._l)
    def __getitem__(self, i):
        if isinstance(i, slice): return Index(self._l[i])
        if isinstance(i, Mask): return Index([t for t, k in zip(self._l, i) if k])
        return self._l[i]
    @property
    def values(self): return Arr(self._l)
    @property
    def time(self): return Index([t.time() for t in self._l])
    @property
    def tz(self): return None
    def _cmp(self, o, f):
        if isinstance(o, (Index, list)): return Mask([f(a, b) for a, b in zip(self._l, list(o))])
        return Mask([f(t, o) for t in self._l])
    def __ge__(self, o): return self._cmp(o, lambda a, b: a >= b)
    def __gt__(self, o): return self._cmp(o, lambda a, b: a > b)
    def __le__(self, o): return self._cmp(o, lambda a, b: a <= b)
    def __lt__(self, o): return self._cmp(o, lambda a, b: a < b)
    def __eq__(self, o): return self._cmp(o, lambda a, b: a == b)
    def __ne__(self, o): return self._cmp(o, lambda a, b: a != b)
    __hash__ = None
    def equals(self, o):
        return isinstance(o, Index) and len(o) == len(self) and all(a == b for a, b in zip(self._l, o._l))     # forks on symbolic labels
    def _pos(self, t):
        for i, u in enumerate(self._l):
            if u == t: return i
        return None
    def intersection(self, o):
        """pandas: the common labels, sorted (both operands sorted and duplicate-free here)"""
        if self.equals(o): return Index(self._l)
        return Index([t for t in self._l if o._pos(t) is not None])
    def union(self, o):
        """pandas: sorted union (operands sorted and duplicate-free)"""
        if self.equals(o): return Index(self._l)
        a, b = list(self._l), list(o._l); out = []
        while a and b:
            if a[0] == b[0]: out.append(a.pop(0)); b.pop(0)
            elif a[0] < b[0]: out.append(a.pop(0))
            else: out.append(b.pop(0))
        return Index(out + a + b)
    def copy(self): return Index(self._l, self.name)
    def __repr__(self): return 'Index(%r)' % (self._l,)

def _mk_index(x):
    return x if isinstance(x, Index) else Index(x)

class _ILoc:
    def __init__(self, s): self.s = s
    def __getitem__(self, i):
        if isinstance(i, slice): return Series(self.s._v[i], self.s._i._l[i], self.s.name)
        return self.s._v[i]

class Series:
    def __init__(self, data = None, index = None, name = None, dtype = None):
        if isinstance(data, Series):
            vals = list(data._v); index = data._i if index is None else index
        elif data is None: vals = []
        elif isinstance(data, (list, tuple, Arr)): vals = list(data)
        else:
            vals = None
        idx = _mk_index(index if index is not None else range(len(vals or [])))
        if vals is None: vals = [data] * len(idx)              # scalar broadcast
        if len(vals) != len(idx): raise ValueError('Length of values (%d) does not match length of index (%d)' % (len(vals), len(idx)))
        self._v = vals; self._i = idx; self.name = name
    # ---- structure
    def __len__(self): return len(self._v)
    @property
    def index(self): return self._i
    @index.setter
    def index(self, new):
        new = _mk_index(new)
        if len(new) != len(self._v): raise ValueError('Length mismatch')
        self._i = new
    @property
    def values(self):
        a = Arr(self._v); a.nonbool = getattr(self, '_nonbool', False); return a
    @property
    def shape(self): return (len(self._v),)
    @property
    def iloc(self): return _ILoc(self)
    @property
    def dtype(self): return 'float64'
    def copy(self): return Series(list(self._v), Index(self._i._l, self._i.name), self.name)
    def __iter__(self): return iter(self._v)
    def items(self): return zip(self._i._l, self._v)
    # ---- selection
    def __getitem__(self, item):
        if isinstance(item, slice):
            if item.step is not None: raise Unsupported('minipd: stepped slice')
            lo, hi = item.start, item.stop
            if all(b is None or type(b) is int for b in (lo, hi)) and all(type(t) is int for t in self._i._l):
                return Series(self._v[lo:hi], self._i._l[lo:hi], self.name)          # integer bounds on an integer (range) index: positional slice
            for b in (lo, hi):
                if b is not None and (isinstance(b, (core.SymTime, _rdt.time)) or not isinstance(b, (_rdt.datetime, core.SymDatetime))):
                    raise TypeError('minipd: label slice bounds must be datetimes')       # pandas raises for time-of-day bounds on a DatetimeIndex slice
            keep = Mask([(True if lo is None else t >= lo) and (True if hi is None else t <= hi) for t in self._i._l])   # closed label slice on a sorted index
            return self[keep]
        if isinstance(item, Arr): item = Mask(list(item))
        if isinstance(item, (Mask, list)) and len(item) == len(self._v) and all(isinstance(k, (bool, SymBool)) for k in item):
            pairs = [(t, v) for t, v, k in zip(self._i._l, self._v, item) if k]
            return Series([v for t, v in pairs], [t for t, v in pairs], self.name)
        if isinstance(item, Series): return self[Mask(item._v)]
        raise Unsupported('minipd: Series[%r]' % type(item).__name__)
    def __setitem__(self, item, value):
        if isinstance(item, Series): item = Mask(item._v)
        if isinstance(item, (Mask, list)) and len(item) == len(self._v):
            self._v = [(value if k else v) for v, k in zip(self._v, item)]; return
        raise Unsupported('minipd: Series[%r] = ...' % type(item).__name__)
    # ---- missing data
    def isnull(self): return Series([_isnan(v) or v is None for v in self._v], self._i)
    def dropna(self, **kw):
        if kw: raise Unsupported('minipd: Series.dropna options')
        keep = [i for i, v in enumerate(self._v) if not _isnan(v)]          # forks on symbolic NaN-ness
        return Series([self._v[i] for i in keep], Index([self._i._l[i] for i in keep], self._i.name), self.name)
    isna = isnull
    def notnull(self): return Series([core.sym_not(_isnan(v)) and v is not None for v in self._v], self._i)
    def last_valid_index(self):
        for t, v in reversed(list(zip(self._i._l, self._v))):
            if not _isnan(v): return t
        return None
    def first_valid_index(self):
        for t, v in zip(self._i._l, self._v):
            if not _isnan(v): return t
        return None
    def _fill(self, limit, backward):
        """propagate the last valid observation over at most `limit` consecutive missing positions"""
        if limit is not None and (not isinstance(limit, int) or limit <= 0): raise ValueError('Limit must be greater than 0')
        vs = list(self._v)[::-1] if backward else list(self._v); out = []; last = None; run = 0
        for v in vs:
            if _isnan(v):
                run += 1
                out.append(last if (last is not None and (limit is None or run <= limit)) else v)
            else:
                last = v; run = 0; out.append(v)
        return Series(out[::-1] if backward else out, Index(self._i._l), self.name)
    def ffill(self, limit = None, **kw):
        if kw.get('axis', 0) not in (0, None): raise Unsupported('minipd: axis')
        return self._fill(limit, False)
    def bfill(self, limit = None, **kw): return self._fill(limit, True)
    def fillna(self, value = None, method = None, limit = None, **kw):
        if method is not None: raise Unsupported('minipd: fillna(method=)')
        if limit is not None and limit <= 0: raise ValueError('Limit must be greater than 0')
        out = []; n = 0
        for v in self._v:
            if _isnan(v) and (limit is None or n < limit): out.append(value); n += 1
            else: out.append(v)
        return Series(out, Index(self._i._l), self.name)
    def reindex(self, index = None, method = None, limit = None, **kw):
        """conform to `index`: own value where the label exists; otherwise NaN, or with method ffill/pad (bfill/backfill) the value at the nearest
        own label before (after) it, at most `limit` positions of the new index away from the last match (pandas: limit counts consecutive fills)"""
        new = _mk_index(index); out = []
        if method in ('pad',): method = 'ffill'
        if method in ('backfill',): method = 'bfill'
        if method not in (None, 'ffill', 'bfill'): raise Unsupported('minipd: reindex method %r' % (method,))
        labels = list(new._l); n = len(labels)
        exact = [self._i._pos(t) for t in labels]
        for k, t in enumerate(labels):
            if exact[k] is not None: out.append(self._v[exact[k]]); continue
            if method is None: out.append(NAN); continue
            src = None
            if method == 'ffill':
                for j, u in enumerate(self._i._l):
                    if u < t: src = j
            else:
                for j in range(len(self._i._l) - 1, -1, -1):
                    if self._i._l[j] > t: src = j
            if src is None: out.append(NAN); continue
            if limit is not None:
                # number of consecutive new labels (in fill direction) since the source label, this one included
                cnt = 0
                rng = range(k, -1, -1) if method == 'ffill' else range(k, n)
                for q in rng:
                    u = labels[q]
                    if (u > self._i._l[src]) if method == 'ffill' else (u < self._i._l[src]): cnt += 1
                    else: break
                if cnt > limit: out.append(NAN); continue
            out.append(self._v[src])
        return Series(out, Index(labels, new.name), self.name)
    def sort_index(self):
        order = sorted(range(len(self._v)), key = lambda i: _Key(self._i._l[i]))
        return Series([self._v[i] for i in order], [self._i._l[i] for i in order], self.name)
    # ---- arithmetic (pandas aligns two Series on the union of their indices)
    def _binop(self, o, f):
        if isinstance(o, Series):
            nm = self.name if self.name == o.name else None
            if self._i.equals(o._i): return Series([f(a, b) for a, b in zip(self._v, o._v)], Index(self._i._l), nm)
            u = self._i.union(o._i); a = self.reindex(u); b = o.reindex(u)
            return Series([f(x, y) for x, y in zip(a._v, b._v)], u, nm)
        return Series([f(a, o) for a in self._v], Index(self._i._l), self.name)
    def __add__(s, o): return s._binop(o, lambda a, b: a + b)
    def __radd__(s, o): return s._binop(o, lambda a, b: b + a)
    def __sub__(s, o): return s._binop(o, lambda a, b: a - b)
    def __rsub__(s, o): return s._binop(o, lambda a, b: b - a)
    def __mul__(s, o): return s._binop(o, lambda a, b: a * b)
    def __rmul__(s, o): return s._binop(o, lambda a, b: b * a)
    def __truediv__(s, o): return s._binop(o, _npdiv)
    def __rtruediv__(s, o): return s._binop(o, lambda a, b: _npdiv(b, a))
    def __gt__(s, o): return s._binop(o, lambda a, b: a > b)
    def __ge__(s, o): return s._binop(o, lambda a, b: a >= b)
    def __lt__(s, o): return s._binop(o, lambda a, b: a < b)
    def __le__(s, o): return s._binop(o, lambda a, b: a <= b)
    def __eq__(s, o): return s._binop(o, lambda a, b: a == b)
    def __ne__(s, o): return s._binop(o, lambda a, b: a != b)
    __hash__ = None
    def __invert__(self):
        r = Series([core.sym_not(v) for v in self._v], Index(self._i._l), self.name); r._nonbool = getattr(self, '_nonbool', False); return r
    def __neg__(self): return Series([-v for v in self._v], Index(self._i._l), self.name)
    def __abs__(self): return Series([abs(v) for v in self._v], Index(self._i._l), self.name)
    def __repr__(self): return 'minipd.Series(%r, %r)' % (self._v, self._i._l)

def _or_all(bs):
    r = False
    for b in bs: r = _or(r, b)
    return r
def _and_all(bs):
    r = True
    for b in bs: r = _and(r, b)
    return r

def _npdiv(a, b):
    """numpy float division: x/0 -> +-inf, 0/0 -> nan (no exception)"""
    fa, fb = core.tofloat(a) if core.is_sym(a) or core.is_sym(b) else a, core.tofloat(b) if core.is_sym(a) or core.is_sym(b) else b
    if isinstance(fa, SymFloat):
        K = z3.IntVal; zero = z3.And(fb.kind == core.FIN, fb.val == 0)
        sa = z3.If(fa.kind == core.PINF, 1, z3.If(fa.kind == core.NINF, -1, z3.If(fa.val > 0, 1, z3.If(fa.val < 0, -1, 0))))
        normal = core._farith(fa, fb, '/')
        kind = z3.If(zero, z3.If(z3.Or(fa.kind == core.NAN, sa == 0), K(core.NAN), z3.If(sa > 0, K(core.PINF), K(core.NINF))), normal.kind)
        return SymFloat(z3.simplify(kind), normal.val)
    try: return a / b
    except ZeroDivisionError:
        return NAN if (a == 0 or a != a) else math.copysign(math.inf, a)

class _Key:
    """sort key wrapper so that sorted() forks on proxy comparisons"""
    def __init__(self, v): self.v = v
    def __lt__(self, o): return True if self.v < o.v else False

class Arr2:
    """2-d array stand-in (rows x columns)"""
    def __init__(self, rows, ncols = None): self._r = [list(r) for r in rows]; self._m = ncols
    dtype = 'float64'
    def copy(self): return Arr2(self._r, self._m)
    def __iter__(self): return iter(Arr(r) for r in self._r)
    @property
    def shape(self): return (len(self._r), len(self._r[0]) if self._r else (self._m or 0))
    def __len__(self): return len(self._r)
    def __getitem__(self, k):
        if isinstance(k, slice): return Arr2(self._r[k], self.shape[1])
        if isinstance(k, int): return Arr(self._r[k])
        raise Unsupported('minipd: Arr2[%r]' % (k,))
    def tolist(self): return [list(r) for r in self._r]
    def __eq__(self, o):
        if isinstance(o, Arr2): return Arr2([[a == b for a, b in zip(r, q)] for r, q in zip(self._r, o._r)])
        return Arr2([[a == o for a in r] for r in self._r])
    __hash__ = None
    def min(self, axis = None):
        if axis != 1: raise Unsupported('minipd: Arr2.min(axis=%r)' % (axis,))
        out = []
        for r in self._r:
            m = r[0]
            for v in r[1:]: m = _and(m, v)
            out.append(m)
        return Arr(out)

class Columns(Index):
    """column labels: a pd.Index for isinstance (deliberately not a list subclass: a pandas Index is not a list, and the code under test treats lists specially);
    intersection / union are sorted, as pandas does for sortable labels"""
    def __init__(self, items = ()): self._c = list(items); self._l = self._c; self.name = None
    def __iter__(self): return iter(self._c)
    def __len__(self): return len(self._c)
    def __contains__(self, x): return x in self._c
    def __getitem__(self, i): return Columns(self._c[i]) if isinstance(i, slice) else self._c[i]
    def append(self, x): self._c.append(x)
    def __eq__(self, o): return list(self._c) == list(o) if isinstance(o, (Columns, list, tuple)) else False
    __hash__ = None
    def intersection(self, o): return Columns(sorted(c for c in self._c if c in list(o)))
    def union(self, o): return Columns(sorted(set(self._c) | set(o)))
    def equals(self, o): return list(self._c) == list(o)
    @property
    def values(self): return Arr(self._c)
    def __repr__(self): return 'Columns(%r)' % (self._c,)

class _FILoc:
    def __init__(self, f): self.f = f
    def __getitem__(self, i):
        if isinstance(i, tuple) and len(i) == 2 and i[0] == slice(None) and isinstance(i[1], int):
            col = self.f._cols[i[1]]; return Series(self.f._c[col], Index(self.f._i._l, self.f._i.name), col)
        if isinstance(i, tuple): raise Unsupported('minipd: iloc[%r]' % (i,))
        if isinstance(i, slice): return self.f._take(list(range(len(self.f)))[i])
        n = len(self.f)
        if i < -n or i >= n: raise IndexError('single positional indexer is out-of-bounds')
        return Row({c: self.f._c[c][i] for c in self.f._cols}, self.f._i._l[i])

class Row:
    """one row of a frame (what DataFrame.iloc[i] returns: a Series indexed by the column names)"""
    def __init__(self, cells, name): self.cells = cells; self.name = name

class DataFrame:
    """frame with few columns and an index that may repeat labels (bitemporal stores): columns dict + label list"""
    def __init__(self, data = None, index = None, columns = None):
        if isinstance(data, Series):
            if columns is None: columns = [data.name if data.name is not None else 0]
            if len(columns) != 1: raise Unsupported('minipd: DataFrame(Series, several columns)')
            self._cols = Columns(columns); self._c = {columns[0]: list(data._v)}; self._i = Index(data._i._l, data._i.name)
        elif isinstance(data, dict):
            self._cols = Columns(data.keys())
            sers = [v for v in data.values() if isinstance(v, Series)]
            if sers:
                if index is None:
                    index = sers[0]._i
                    if not all(v._i.equals(index) for v in sers): raise Unsupported('minipd: DataFrame(dict of differently indexed Series)')
            n = len(index) if index is not None else builtins.max([len(v) for v in data.values() if isinstance(v, (list, Arr, Series))] + [0])
            self._c = {k: (list(v._v) if isinstance(v, Series) else list(v) if isinstance(v, (list, Arr)) else [v] * n) for k, v in data.items()}
            self._i = _mk_index(index if index is not None else range(n))
            if isinstance(index, Index): self._i = Index(index._l, index.name)
        elif isinstance(data, Arr2):
            n, m = data.shape
            self._cols = Columns(columns if columns is not None else range(m)); self._c = {c: [data._r[i][j] for i in range(n)] for j, c in enumerate(self._cols)}
            self._i = _mk_index(index if index is not None else range(n))
        elif data is None:
            self._cols = Columns(columns or []); self._c = {c: [] for c in self._cols}; self._i = _mk_index(index or [])
        else: raise Unsupported('minipd: DataFrame(%s)' % type(data).__name__)
    def __len__(self): return len(self._i)
    @property
    def shape(self): return (len(self._i), len(self._cols))
    @property
    def index(self): return self._i
    @index.setter
    def index(self, new): self._i = _mk_index(new)
    @property
    def columns(self): return self._cols
    @columns.setter
    def columns(self, new):
        new = list(new)
        if len(new) != len(self._cols): raise ValueError('Length mismatch')
        self._c = {n: self._c[o] for n, o in zip(new, self._cols)}; self._cols = Columns(new)
    @property
    def iloc(self): return _FILoc(self)
    @property
    def values(self): return Arr2([[self._c[c][i] for c in self._cols] for i in range(len(self))], len(self._cols))
    def __contains__(self, c): return c in self._cols
    def copy(self):
        f = DataFrame(); f._cols = Columns(self._cols); f._c = {c: list(v) for c, v in self._c.items()}; f._i = Index(self._i._l, self._i.name); return f
    def _take(self, pos):
        f = DataFrame(); f._cols = Columns(self._cols); f._c = {c: [self._c[c][i] for i in pos] for c in self._cols}; f._i = Index([self._i._l[i] for i in pos], self._i.name); return f
    def __getitem__(self, item):
        if isinstance(item, slice):
            probe = Series(list(range(len(self))), Index(self._i._l))[item]              # same label / positional slice rules as a Series
            return self._take(list(probe._v))
        if isinstance(item, str) or (isinstance(item, int) and item in self._c):
            if item not in self._c: raise KeyError(item)
            return Series(self._c[item], Index(self._i._l, self._i.name), item)
        nonbool = getattr(item, 'nonbool', False) or getattr(item, '_nonbool', False)
        if isinstance(item, Series): item = list(item._v)
        if isinstance(item, (Arr, Mask)): item = list(item)
        if isinstance(item, list) and len(item) == 0 and nonbool:
            f = self.copy(); f._cols = Columns([]); f._c = {}; return f            # an empty non-boolean key is read by pandas as an empty list of columns
        if isinstance(item, list) and len(item) == len(self) and all(isinstance(k, (bool, SymBool)) for k in item):
            return self._take([i for i, k in enumerate(item) if k])                # forks on symbolic masks
        if isinstance(item, list) and all(isinstance(k, str) for k in item):
            f = self.copy(); f._cols = Columns(item); f._c = {c: list(self._c[c]) for c in item}; return f
        raise Unsupported('minipd: DataFrame[%s]' % type(item).__name__)
    def __setitem__(self, col, value):
        if isinstance(col, DataFrame):                      # boolean frame mask
            if list(col._cols) != list(self._cols): raise Unsupported('minipd: mask frame with other columns')
            for c in self._cols: self._c[c] = [(value if k else v) for v, k in zip(self._c[c], col._c[c])]
            return
        if isinstance(value, (list, Arr)): vals = list(value)
        elif isinstance(value, Series): vals = list(value._v)
        else: vals = [value] * len(self)
        if len(vals) != len(self): raise ValueError('Length of values does not match length of index')
        if col not in self._c: self._cols.append(col)
        self._c[col] = vals
    def drop(self, columns = None, **kw):
        if kw or columns is None: raise Unsupported('minipd: drop')
        cols = [columns] if isinstance(columns, str) else list(columns)
        for c in cols:
            if c not in self._c: raise KeyError(c)
        f = self.copy(); f._cols = Columns([c for c in self._cols if c not in cols]); f._c = {c: f._c[c] for c in f._cols}; return f
    def _percol(self, fn, axis):
        if axis not in (0, None, 'index'): raise Unsupported('minipd: axis=%r' % (axis,))
        f = self.copy()
        for c in f._cols: f._c[c] = fn(Series(f._c[c], list(range(len(self)))))._v
        return f
    def ffill(self, axis = 0, limit = None, **kw): return self._percol(lambda s: s.ffill(limit = limit), axis)
    def bfill(self, axis = 0, limit = None, **kw): return self._percol(lambda s: s.bfill(limit = limit), axis)
    def fillna(self, value = None, method = None, axis = 0, limit = None, **kw):
        if method is not None: raise Unsupported('minipd: fillna(method=)')
        return self._percol(lambda s: s.fillna(value, limit = limit), axis)
    def __invert__(self):
        f = self.copy()
        for c in f._cols: f._c[c] = [core.sym_not(v) for v in f._c[c]]
        return f
    def sum(self, axis = 0, min_count = 0, **kw):
        """row sums (axis = 1), NaN cells skipped; fewer than min_count valid cells -> NaN; +inf + -inf -> NaN as in IEEE"""
        if kw or axis != 1: raise Unsupported('minipd: DataFrame.sum options')
        from vf.symx import ops as X
        out = []
        for i in range(len(self)):
            tot = 0.0; cnt = 0
            for c in self._cols:
                v = self._c[c][i]; n = _isnan(v)
                tot = tot + X.If(n, 0.0, v); cnt = cnt + X.If(n, 0, 1)
            out.append(X.If(cnt < min_count, float('nan'), tot) if min_count else tot)
        return Series(out, Index(self._i._l, self._i.name))
    def dropna(self, how = 'any', **kw):
        if kw or how not in ('any', 'all'): raise Unsupported('minipd: dropna options')
        keep = []
        for i in range(len(self)):
            nans = [_isnan(self._c[c][i]) for c in self._cols]
            drop = (_or_all(nans) if how == 'any' else _and_all(nans)) if nans else False
            if not drop: keep.append(i)                                   # forks on symbolic NaN-ness
        return self._take(keep)
    def reindex(self, index = None, method = None, limit = None, **kw):
        new = _mk_index(index); f = DataFrame(); f._cols = Columns(self._cols); f._i = Index(new._l, new.name)
        f._c = {c: Series(self._c[c], Index(self._i._l)).reindex(new, method = method, limit = limit)._v for c in self._cols}
        return f
    def min(self, axis = 0):
        if axis != 1: raise Unsupported('minipd: DataFrame.min(axis=%r)' % (axis,))
        out = []
        for i in range(len(self)):
            m = self._c[self._cols[0]][i]
            for c in self._cols[1:]: m = _and(m, self._c[c][i])         # boolean frames only (row-wise all)
            out.append(m)
        r = Series(out, Index(self._i._l, self._i.name))
        r._nonbool = len(out) == 0            # pandas: the row-wise min of an empty boolean frame is an empty *float* Series
        return r
    def _binop(self, o, f):
        if isinstance(o, DataFrame):
            if list(o._cols) != list(self._cols) or not o._i.equals(self._i): raise Unsupported('minipd: arithmetic of differently shaped frames')
            r = self.copy(); r._c = {c: [f(a, b) for a, b in zip(self._c[c], o._c[c])] for c in self._cols}; return r
        if isinstance(o, Series): raise Unsupported('minipd: frame op series')
        r = self.copy(); r._c = {c: [f(a, o) for a in self._c[c]] for c in self._cols}; return r
    def __add__(s, o): return s._binop(o, lambda a, b: a + b)
    def __radd__(s, o): return s._binop(o, lambda a, b: b + a)
    def __sub__(s, o): return s._binop(o, lambda a, b: a - b)
    def __mul__(s, o): return s._binop(o, lambda a, b: a * b)
    def __rmul__(s, o): return s._binop(o, lambda a, b: b * a)
    def __truediv__(s, o): return s._binop(o, _npdiv)
    def __eq__(s, o): return s._binop(o, lambda a, b: a == b)
    __hash__ = None
    def max(self, axis = 0):
        if axis != 1: raise Unsupported('minipd: DataFrame.max(axis=%r)' % (axis,))
        out = []
        for i in range(len(self)):
            m = self._c[self._cols[0]][i]
            for c in self._cols[1:]: m = _or(m, self._c[c][i])          # boolean frames only (row-wise any)
            out.append(m)
        r = Series(out, Index(self._i._l, self._i.name))
        r._nonbool = len(out) == 0            # pandas: the row-wise max of an empty boolean frame is an empty *float* Series
        return r
    def sort_values(self, by, **kw):
        """stable ascending sort by one column (pandas' default quicksort is an insertion sort, hence stable, on the < 16 rows used here)"""
        if kw or not isinstance(by, str): raise Unsupported('minipd: sort_values options')
        order = []
        for i in range(len(self)):
            pos = len(order)
            for p, j in enumerate(order):
                if self._c[by][i] < self._c[by][j]: pos = p; break
            order.insert(pos, i)
        return self._take(order)
    def drop_duplicates(self, subset = None, keep = 'first'):
        if keep != 'last' or not subset or len(subset) != 1: raise Unsupported('minipd: drop_duplicates variant')
        col = self._c[subset[0]]; n = len(col)
        keepers = [i for i in range(n) if not any(col[j] == col[i] for j in range(i + 1, n))]        # forks on symbolic equalities
        return self._take(keepers)
    def groupby(self, by):
        if by != self._i.name: raise Unsupported('minipd: groupby other than by the index name')
        keys = []
        for t in self._i._l:
            if not any(t == k for k in keys): keys.append(t)
        keys = sorted(keys, key = _Key)
        return _GroupBy(self, keys)
    def __repr__(self): return 'minipd.DataFrame(%r, index=%r)' % (self._c, self._i._l)

class _GroupBy:
    def __init__(self, f, keys): self.f = f; self.keys = keys
    def __iter__(self):
        for k in self.keys:
            yield k, self.f._take([i for i, t in enumerate(self.f._i._l) if t == k])
    def _pick(self, last):
        """groupby.first() / .last(): per group and column the first / last cell that is not NaN (NaN if there is none)"""
        from vf.symx import ops as X
        rows = []
        for k, sub in self:
            cells = {}
            for c in sub._cols:
                vs = list(sub._c[c]); vs = vs[::-1] if last else vs
                r = float('nan')
                for v in vs[::-1]: r = X.If(_isnan(v), r, v)          # folded from the far end, so the nearest non-NaN cell wins
                cells[c] = r
            rows.append((k, cells))
        f = DataFrame(); f._cols = Columns(self.f._cols); f._c = {c: [cells[c] for k, cells in rows] for c in f._cols}; f._i = Index([k for k, cells in rows], self.f._i.name)
        return f
    def first(self): return self._pick(False)
    def last(self): return self._pick(True)
    def apply(self, func, **kw):
        if isinstance(func, str):                         # pandas: a string names a groupby method
            if func not in ('first', 'last'): raise Unsupported('minipd: groupby.apply(%r)' % func)
            return getattr(self, func)()
        rows = []; 
        for k, sub in self:
            r = func(sub)
            if not isinstance(r, Row): raise Unsupported('minipd: groupby.apply result %s' % type(r).__name__)
            rows.append((k, r))
        f = DataFrame(); f._cols = Columns(self.f._cols); f._c = {c: [r.cells[c] for k, r in rows] for c in f._cols}; f._i = Index([k for k, r in rows], self.f._i.name)
        return f

def concat(objs, axis = 0, **kw):
    objs = list(objs)
    if axis == 1:
        if not objs or not all(isinstance(o, Series) for o in objs): raise Unsupported('minipd: concat(axis=1) of non-Series')
        first = objs[0]._i
        names = [o.name if o.name is not None else k for k, o in enumerate(objs)]
        if len(set(names)) != len(names): names = list(range(len(objs)))        # pandas keeps duplicate labels; the code under test relabels the columns 0..n-1 straight away (gated through the real df_slice)
        if not all(o._i.equals(first) for o in objs):
            # outer join on the (sorted, duplicate-free) indexes: sorted union, NaN where a series has no observation
            joint = first
            for o in objs[1:]: joint = joint.union(o._i)
            objs = [o.reindex(joint) for o in objs]; first = joint
        f = DataFrame()
        f._cols = Columns(names); f._c = {n: list(o._v) for n, o in zip(names, objs)}; f._i = Index(first._l, first.name); return f
    if axis != 0: raise Unsupported('minipd: concat(axis=%r)' % (axis,))
    if objs and all(isinstance(o, DataFrame) for o in objs):
        cols = list(objs[0]._cols)
        for o in objs:
            for c in o._cols:
                if c not in cols: cols.append(c)                   # union of the columns in order of appearance; a frame lacking a column contributes NaN
        f = DataFrame(); f._cols = Columns(cols); f._c = {c: sum([(list(o._c[c]) if c in o._c else [float('nan')] * len(o)) for o in objs], []) for c in cols}
        f._i = Index(sum([list(o._i._l) for o in objs], []), objs[0]._i.name)
        return f
    vals = []; labels = []
    for o in objs:
        if o is None: continue
        if not isinstance(o, Series): raise Unsupported('minipd: concat of %s' % type(o).__name__)
        vals += list(o._v); labels += list(o._i._l)
    return Series(vals, labels)

class _Module:
    """what `pd` resolves to inside the code under test"""
    Series = Series; DataFrame = DataFrame; Index = Index; concat = staticmethod(concat)
    NaT = None
    def __getattr__(self, k): raise Unsupported('minipd: pd.%s is not modelled' % k)
    @staticmethod
    def isnull(x):
        if isinstance(x, Series): return x.isnull()
        return _isnan(x) or x is None
pd = _Module()

class NPX:
    """numpy as seen by the code under test: scalar predicates and the few array functions used on Series"""
    def __init__(self):
        import numpy
        object.__setattr__(self, '_np', numpy)
    def __getattr__(self, k):
        if k == 'ndarray': return (Arr, Arr2)
        if k in ('nan', 'inf', 'float64', 'int64', 'int32', 'int16', 'int8', 'float32', 'float16', 'bool_', 'str_', 'datetime64', 'dtype', 'generic', 'integer', 'floating', 'vectorize'): return getattr(self._np, k)
        raise Unsupported('minipd: np.%s is not modelled' % k)
    def isnan(self, x):
        if isinstance(x, Series): return Series([_isnan(v) for v in x._v], Index(x._i._l))
        if isinstance(x, Arr): return Arr([_isnan(v) for v in x])
        if isinstance(x, DataFrame):
            f = x.copy()
            for c in f._cols: f._c[c] = [_isnan(v) for v in f._c[c]]
            return f
        if isinstance(x, SymFloat): return mkbool(x.kind == core.NAN)
        if core.is_sym(x): return False
        return self._np.isnan(x)
    def isinf(self, x):
        if isinstance(x, Series): return Series([_isinf(v) for v in x._v], Index(x._i._l))
        if isinstance(x, Arr): return Arr([_isinf(v) for v in x])
        if isinstance(x, SymFloat): return mkbool(z3.Or(x.kind == core.PINF, x.kind == core.NINF))
        if core.is_sym(x): return False
        return self._np.isinf(x)
    def full(self, shape, fill_value, dtype = None):
        n = shape[0] if isinstance(shape, tuple) else shape
        if isinstance(shape, tuple) and len(shape) == 2 and dtype is None: return Arr2([[fill_value] * shape[1] for _ in range(n)], shape[1])
        if isinstance(shape, tuple) and len(shape) > 1: raise Unsupported('minipd: arrays of more than 2 dimensions')
        if dtype is not None and str(dtype).startswith('int') and isinstance(fill_value, float) and fill_value != fill_value:
            return Arr([-9223372036854775808] * n, dtype = str(dtype))      # numpy casts nan into an integer array as INT64_MIN (with a RuntimeWarning)
        return Arr([fill_value] * n)
    def concatenate(self, arrs, axis = 0):
        if any(isinstance(a, Arr2) for a in arrs):
            if axis != 0 or not all(isinstance(a, Arr2) for a in arrs) or len(set(a.shape[1] for a in arrs)) > 1: raise Unsupported('minipd: concatenate of mixed shapes')
            return Arr2([r for a in arrs for r in a._r], arrs[0].shape[1])
        out = []
        for a in arrs: out += list(a)
        return Arr(out)
    def __getitem_placeholder__(self): pass
    def array(self, x, **kw): return Arr(list(x))
    def minimum(self, a, b): return _elementwise(a, b, lambda x, y: _nanprop(x, y, lambda p, q: q if q < p else p))
    def maximum(self, a, b): return _elementwise(a, b, lambda x, y: _nanprop(x, y, lambda p, q: q if q > p else p))
def _isinf(v):
    if isinstance(v, SymFloat): return mkbool(z3.Or(v.kind == core.PINF, v.kind == core.NINF))
    return isinstance(v, float) and v in (math.inf, -math.inf)
def _nanprop(x, y, f):
    if _isnan(x): return x
    if _isnan(y): return y
    return f(x, y)
def _elementwise(a, b, f):
    if isinstance(a, Series): return a._binop(b, f)
    if isinstance(b, Series): return b._binop(a, lambda y, x: f(x, y))
    return f(a, b)

def rows(s):
    """(label, value) pairs of a minipd or a real pandas Series"""
    if isinstance(s, Series): return list(zip(s._i._l, s._v))
    return list(zip(list(s.index.to_pydatetime() if hasattr(s.index, 'to_pydatetime') else s.index), [float(v) if v is not None else v for v in s.values]))

# ------------------------------------------------------------------ validation against the real pandas
def gate():
    import pandas as rpd, numpy as np, itertools
    n = 0
    grid = [_rdt.datetime(2020, 1, 1) + _rdt.timedelta(days = i) for i in range(5)]
    vals = [1.0, NAN, 3.0, NAN, 5.0]
    def both(labels, values):
        return Series(list(values), list(labels)), rpd.Series(list(values), rpd.DatetimeIndex(list(labels)), dtype = float)
    def same(m, r):
        mr = rows(m); rr = list(zip(list(r.index.to_pydatetime()), [float(v) for v in r.values]))
        return len(mr) == len(rr) and all(a[0] == b[0] and (a[1] == b[1] or (a[1] != a[1] and b[1] != b[1])) for a, b in zip(mr, rr))
    subsets = [c for k in range(0, 4) for c in itertools.combinations(range(5), k)]
    for sub in subsets:
        labels = [grid[i] for i in sub]
        for pat in itertools.product([0, 1], repeat = len(sub)):
            values = [NAN if p else float(10 + i) for p, i in zip(pat, sub)]
            m, r = both(labels, values)
            for limit in (None, 1, 2):
                for name in ('ffill', 'bfill'):
                    if not same(getattr(m, name)(limit = limit), getattr(r, name)(limit = limit)): return False, dict(mismatch = '%s limit=%s %s' % (name, limit, values))
                    n += 1
                if not same(m.fillna(7.0, limit = limit), r.fillna(7.0, limit = limit)): return False, dict(mismatch = 'fillna %s' % (values,))
                n += 1
            if m.last_valid_index() != (None if r.last_valid_index() is None else r.last_valid_index().to_pydatetime()): return False, dict(mismatch = 'last_valid_index %s' % (values,))
            mm = np.isnan(r.values); mine = [(_isnan(v)) for v in m._v]
            if list(mm) != mine: return False, dict(mismatch = 'isnan')
            if not same(m[Mask([not b for b in mine])], r[~mm]): return False, dict(mismatch = 'mask')
            n += 2
            if len(pat) and sum(pat) == 0:
                # label slices (closed on both ends, bounds need not be labels) on a sorted index
                for lo in [None] + [g - _rdt.timedelta(hours = 12) for g in grid] + grid[:2]:
                    for hi in [None] + [g + _rdt.timedelta(hours = 12) for g in grid] + grid[3:]:
                        if not same(m[lo:hi], r[lo:hi]): return False, dict(mismatch = 'slice %s %s %s' % (labels, lo, hi))
                        n += 1
                # reindex
                for sub2 in subsets:
                    new = [grid[i] for i in sub2]
                    for method in (None, 'ffill', 'bfill'):
                        for limit in ((None,) if method is None else (None, 1, 2)):
                            if not same(m.reindex(Index(new), method = method, limit = limit), r.reindex(rpd.DatetimeIndex(new), method = method, limit = limit)):
                                return False, dict(mismatch = 'reindex %s -> %s %s %s' % (sub, sub2, method, limit))
                            n += 1
                    r2 = rpd.Series([float(100 + i) for i in sub2], rpd.DatetimeIndex(new), dtype = float); m2 = Series([float(100 + i) for i in sub2], new)
                    if [t for t in m._i.intersection(m2._i)] != list(r.index.intersection(r2.index).to_pydatetime()): return False, dict(mismatch = 'intersection')
                    if [t for t in m._i.union(m2._i)] != list(r.index.union(r2.index).to_pydatetime()): return False, dict(mismatch = 'union')
                    for op in ('__add__', '__sub__', '__mul__', '__truediv__'):
                        if not same(getattr(m, op)(m2), getattr(r, op)(r2)): return False, dict(mismatch = 'binop %s %s %s' % (op, sub, sub2))
                    n += 6
    # division by zero, concat + sort_index, index.time masks
    m, r = both(grid[:3], [1.0, 0.0, -2.0]); m0, r0 = both(grid[:3], [0.0, 0.0, 0.0])
    with np.errstate(all = 'ignore'):
        if not same(m / m0, r / r0): return False, dict(mismatch = 'div0')
    a, ra = both(grid[3:], [4.0, 5.0]); b, rb = both(grid[:2], [1.0, 2.0])
    if not same(concat([a, b]).sort_index(), rpd.concat([ra, rb]).sort_index()): return False, dict(mismatch = 'concat')
    ts = [_rdt.datetime(2020, 1, 1, h) for h in (1, 9, 17)] + [_rdt.datetime(2020, 1, 2, 9)]
    m, r = both(ts, [1.0, 2.0, 3.0, 4.0])
    for t in (_rdt.time(9), _rdt.time(12)):
        if list(m.index.time >= t) != list(r.index.time >= t) or list(m.index.time < t) != list(r.index.time < t): return False, dict(mismatch = 'time mask')
        try:
            r[t:None]; return False, dict(mismatch = 'pandas accepted a time-of-day label slice')
        except Exception: pass
    # two-column frames: fills with limit, row masks, label slices, column selection, concat(axis=1)
    def fsame(m, r):
        if list(m._cols) != list(r.columns) or len(m) != len(r): return False
        if [t for t in m._i._l] != [t.to_pydatetime() if hasattr(t, 'to_pydatetime') else t for t in r.index]: return False
        return all((a == b or (a != a and b != b)) for c in m._cols for a, b in zip(m._c[c], [float(v) for v in r[c].values]))
    for pat in itertools.product([0, 1], repeat = 6):
        colsv = dict(a = [NAN if pat[i] else float(i) for i in range(3)], b = [NAN if pat[3 + i] else float(10 + i) for i in range(3)])
        mf = DataFrame({k: list(v) for k, v in colsv.items()}, index = grid[:3]); rf = rpd.DataFrame(colsv, index = rpd.DatetimeIndex(grid[:3]))
        for limit in (None, 1):
            if not fsame(mf.ffill(axis = 0, limit = limit), rf.ffill(axis = 0, limit = limit)) or not fsame(mf.bfill(axis = 0, limit = limit), rf.bfill(axis = 0, limit = limit)): return False, dict(mismatch = 'frame fill %s' % (pat,))
            if not fsame(mf.fillna(value = 7.0, axis = 0, limit = limit), rf.fillna(value = 7.0, axis = 0, limit = limit)): return False, dict(mismatch = 'frame fillna %s' % (pat,))
        nn = ~NPX().isnan(mf); rn = ~np.isnan(rf)
        if [bool(v) for v in nn.max(axis = 1)._v] != [bool(v) for v in rn.max(axis = 1).values]: return False, dict(mismatch = 'frame isnan/max %s' % (pat,))
        keep = [bool(v) for v in rn.max(axis = 1).values]
        if not fsame(mf[Arr(keep)], rf[np.array(keep)]): return False, dict(mismatch = 'frame mask')
        if not fsame(mf[grid[1]:], rf[grid[1]:]) or not fsame(mf.iloc[:0], rf.iloc[:0]): return False, dict(mismatch = 'frame slice')
        c0 = mf.iloc[:, 1]; r0 = rf.iloc[:, 1]
        if c0.name != r0.name or not same(c0, r0): return False, dict(mismatch = 'iloc[:, i]')
        if not fsame(concat([mf.iloc[:, 0], mf.iloc[:, 1]], axis = 1), rpd.concat([rf.iloc[:, 0], rf.iloc[:, 1]], axis = 1)): return False, dict(mismatch = 'concat axis 1')
        n += 10
    me = DataFrame(dict(a = [], b = []), index = []); re_ = rpd.DataFrame(dict(a = [], b = []), index = rpd.DatetimeIndex([]), dtype = float)
    if list(me[Arr([])]._cols) != list(re_[np.array([], dtype = bool)].columns): return False, dict(mismatch = 'empty mask on an empty frame')
    if list(me[(~NPX().isnan(me)).max(axis = 1).values]._cols) != list(re_[(~np.isnan(re_)).max(axis = 1).values].columns): return False, dict(mismatch = 'row-wise max of an empty frame used as a key')
    a2 = Arr2([[1.0, NAN], [NAN, 4.0]]); ra2 = np.array([[1.0, NAN], [NAN, 4.0]])
    if not fsame(DataFrame(a2).ffill(), rpd.DataFrame(ra2).ffill()): return False, dict(mismatch = 'frame from 2-d array')
    with np.errstate(all = 'ignore'):
        import warnings
        with warnings.catch_warnings():
            warnings.simplefilter('ignore')
            if list(NPX().full((2,), NAN, dtype = 'int64')) != list(np.full((2,), np.nan, dtype = np.int64)): return False, dict(mismatch = 'nan cast into an int array')
    mi = Series([1.0, NAN, 3.0]); ri = rpd.Series([1.0, NAN, 3.0])
    for k in range(0, 4):
        a = mi[k:]; b = ri[k:]
        if list(a._i._l) != list(b.index) or len(a) != len(b): return False, dict(mismatch = 'positional slice on a range index')
    n += 9
    return True, dict(comparisons = n)
