"""C03 alignment puts all timeseries on the prescribed common index, values intact (1-d timeseries and bare arrays)."""
import datetime as _rdt
from vf.runner import Ob
from vf import minipd
from vf.symx import core, shims, ops as X
from .pandas_common import *
from . import values as V
from .dates_common import key
from .c08 import series, lookup, union_offsets

FUNCS = ['pyg_base._pandas:df_index', 'pyg_base._pandas:_df_index', 'pyg_base._pandas:_np_index', 'pyg_base._pandas:_index', 'pyg_base._pandas:_list', 'pyg_base._pandas:df_reindex',
         'pyg_base._pandas:_df_reindex', 'pyg_base._pandas:df_sync', 'pyg_base._pandas:presync.wrapped', 'pyg_base._pandas:_nona', 'pyg_base._pandas:_df_fillna', 'pyg_base._loop:loops._wrapped',
         'pyg_base._reducer:reducing.wrapped', 'pyg_base._reducer:reducer']
BOUNDS = dict(frames = 'lists of two frames of 2..3 columns and 0..1 rows (thorough 2) plus a string, every column policy ij / oj / lj / rj and index policy', collections = '2..3 Series of 0..2 rows (thorough 3) with symbolic stamps in a common 7-day window and symbolic values incl. NaN, inside a list, a dict, or a dict holding a nested list, '
                            'mixed with a scalar, a string and None', policies = 'join in {ij, oj, lj, rj, explicit index}, fill method in {None, ffill, bfill}',
              arrays = 'collections of 2..3 bare arrays of symbolic lengths 0..3 with symbolic cells, every join policy; pairs of 2-d arrays (0..2 rows x 2 columns)')
OUTSIDE = ['frames with more than 3 columns or more than 2 rows, single-column frames, frames with repeated column names', 'tz-aware indices', 'more than 3 rows']
ASSUMPTIONS = ['pandas replaced by the minipd model, validated against the real pandas each run (intersection / union, reindex with method and limit as an as-of join on a sorted index, masks)']

JOINS = ['ij', 'oj', 'lj', 'rj']
def want_offsets(all_offs, join):
    if join == 'ij': return [o for o in all_offs[0] if all(any(o == p for p in offs) for offs in all_offs[1:])]
    if join == 'oj': return union_offsets(all_offs)
    if join == 'lj': return list(all_offs[0])
    return list(all_offs[-1])

def asof(offs, vs, o, method):
    """oracle for one aligned cell: own value if the series has the stamp; else NaN, or with ffill / bfill the last / next non-NaN observation strictly before / after"""
    v = lookup(offs, vs, o)
    if method is None: return float('nan') if v is None else v
    # the library drops NaN observations before an as-of reindex
    obs = [(oo, vv) for oo, vv in zip(offs, vs) if not V.is_nan(vv)]
    for oo, vv in obs:
        if oo == o: return vv
    if method == 'ffill':
        prev = [vv for oo, vv in obs if oo < o]
        return prev[-1] if prev else float('nan')
    nxt = [vv for oo, vv in obs if oo > o]
    return nxt[0] if nxt else float('nan')

def check_series(c, got, base, offs_want, src, method, label):
    g = rows(got)
    c.check(label + '-is-on-the-common-index', len(g) == len(offs_want) and all(key(p[0]) == key(base) + o * core.US_DAY for p, o in zip(g, offs_want)))
    for p, o in zip(g, offs_want):
        c.check(label + '-keeps-its-value-or-nan-or-the-as-of-fill', feq(p[1], asof(src[3], src[2], o, method)))

def h_sync(nrows, shape, join, method):
    def h(c):
        Pm = P(); base = c.day('base')
        k = 3 if shape in ('list3', 'nested') else 2
        ss = [series(c, 's%d' % i, nrows[i], base) for i in range(k)]
        scalar = c.int('scalar', -9, 9); text = 'keep-me'
        if shape == 'list': coll = [ss[0][0], scalar, ss[1][0], text, None]
        elif shape == 'list3': coll = [ss[0][0], ss[1][0], ss[2][0]]
        elif shape == 'dict': coll = dict(z = ss[0][0], n = scalar, b = ss[1][0], t = text)          # keys not in sorted order: 'first' / 'last' mean insertion order
        else: coll = dict(z = ss[0][0], inner = [ss[1][0], text, ss[2][0]], n = None)
        offs = want_offsets([s[3] for s in ss], join)
        c.cover('overlap', len(want_offsets([s[3] for s in ss], 'ij')) > 0) if all(nrows[:k]) else None
        r = Pm.df_sync(coll, join = join, method = method)
        c.check('container-structure-preserved', type(r) is type(coll) and len(r) == len(coll) and (not isinstance(coll, dict) or list(r.keys()) == list(coll.keys())))
        if shape in ('list', 'list3'):
            outs = [r[0], r[2]] if shape == 'list' else [r[0], r[1], r[2]]
            if shape == 'list': c.check('non-timeseries-pass-through-unchanged', r[1] is scalar and r[3] is text and r[4] is None)
        elif shape == 'dict':
            outs = [r['z'], r['b']]; c.check('non-timeseries-pass-through-unchanged', r['n'] is scalar and r['t'] is text)
        else:
            outs = [r['z'], r['inner'][0], r['inner'][2]]
            c.check('non-timeseries-pass-through-unchanged', r['inner'][1] is text and r['n'] is None and isinstance(r['inner'], list) and len(r['inner']) == 3)
        for i, o in enumerate(outs): check_series(c, o, base, offs, ss[i], method, 'series')
        for s in ss: c.check('inputs-unchanged', len(rows(s[0])) == len(s[3]) and all(feq(p[1], v) for p, v in zip(rows(s[0]), s[2])))
    return h

def h_reindex_explicit(n, m, method):
    def h(c):
        Pm = P(); base = c.day('base')
        s = series(c, 's', n, base); idx = series(c, 'idx', m, base, nan = False)
        r = Pm.df_reindex(dict(x = s[0], y = [s[0], 5]), idx[0], method = method)
        check_series(c, r['x'], base, idx[3], s, method, 'series'); check_series(c, r['y'][0], base, idx[3], s, method, 'nested-series')
        c.check('scalar-passes-through', r['y'][1] == 5)
    return h

def h_presync(join, na, nb):
    def h(c):
        Pm = P(); base = c.day('base')
        a = series(c, 'a', na, base); b = series(c, 'b', nb, base)
        seen = []
        f = Pm.presync(lambda x, y, z: (seen.append((x, y, z)), x)[1], index = join)
        r = f(a[0], dict(k = b[0]), z = 3)
        offs = want_offsets([a[3], b[3]], join)
        x, y, z = seen[0]
        check_series(c, x, base, offs, a, None, 'positional-argument'); check_series(c, y['k'], base, offs, b, None, 'series-nested-in-a-dict-argument')
        c.check('non-timeseries-argument-unchanged', z == 3)
    return h

def h_arrays(join, k):
    def h(c):
        Pm = P()
        lens = [c.choice('len%d' % i, 4) for i in range(k)]
        arrs = []; cells = []
        for i in range(k):
            isint = c.choice('int%d' % i, 2)                       # the dtype of each array is a selector: float or integer cells
            vs = [(c.int('a%d.%d' % (i, j), -9, 9) if isint else c.float('a%d.%d' % (i, j), allow = (core.FIN,), halves = 12)) for j in range(lens[i])]
            cells.append(vs)
            arrs.append(minipd.Arr(vs, dtype = 'int64' if isint else 'float64') if c.mode == 'sym' else __import__('numpy').array([(int(v) if isint else float(v)) for v in vs], dtype = 'int64' if isint else float))
        n = min(lens) if join == 'ij' else max(lens) if join == 'oj' else lens[0] if join == 'lj' else lens[-1]
        c.cover('different-lengths', len(set(lens)) > 1)
        r = Pm.df_sync(list(arrs), join = join)
        for i in range(k):
            got = list(r[i]); vs = cells[i]
            want = vs[len(vs) - n:] if len(vs) >= n else [float('nan')] * (n - len(vs)) + vs
            c.check('arrays-are-aligned-at-the-end', len(got) == n and all(feq(g, w) for g, w in zip(got, want)))
    return h

def h_arrays2d(join):
    """two bare 2-d arrays (rows x 2 columns): rows are aligned at the end, the columns stay as they are"""
    def h(c):
        Pm = P()
        lens = [c.choice('len%d' % i, 3) for i in range(2)]
        arrs = []; cells = []
        for i in range(2):
            rows_ = [[c.float('a%d.%d.%d' % (i, j, k), allow = (core.FIN,), halves = 12) for k in range(2)] for j in range(lens[i])]
            cells.append(rows_)
            arrs.append(minipd.Arr2(rows_, 2) if c.mode == 'sym' else __import__('numpy').array([[float(v) for v in r] for r in rows_], dtype = float).reshape(lens[i], 2))
        n = min(lens) if join == 'ij' else max(lens) if join == 'oj' else lens[0] if join == 'lj' else lens[-1]
        c.cover('different-lengths', lens[0] != lens[1])
        r = Pm.df_sync(list(arrs), join = join)
        for i in range(2):
            got = r[i].tolist(); vs = cells[i]
            want = vs[len(vs) - n:] if len(vs) >= n else [[float('nan')] * 2] * (n - len(vs)) + vs
            c.check('2-d-arrays-keep-their-columns', tuple(r[i].shape) == (n, 2))
            c.check('2-d-arrays-are-aligned-at-the-end', len(got) == n and all(len(g) == 2 and feq(g[0], w[0]) and feq(g[1], w[1]) for g, w in zip(got, want)))
    return h

# ---------------------------------------------------------------- multi-column frames: common column set
from .c08 import frame, frame_cells, COLSETS

def h_frames_sync(na, nb, ia, ib, join, columns, method = None, nested = False):
    def h(c):
        Pm = P(); base = c.day('base')
        A, oa, ca = frame(c, 'A', na, base, COLSETS[ia]); B, ob, cb = frame(c, 'B', nb, base, COLSETS[ib])
        if nested:
            r = Pm.df_sync([A, 'text', dict(inner = [B])], join = join, columns = columns, method = method)
            c.check('structure', isinstance(r, list) and len(r) == 3 and r[1] == 'text' and isinstance(r[2], dict) and list(r[2].keys()) == ['inner'] and isinstance(r[2]['inner'], list) and len(r[2]['inner']) == 1)
            r = [r[0], r[1], r[2]['inner'][0]]
        else: r = Pm.df_sync([A, 'text', B], join = join, columns = columns, method = method)
        c.check('structure', isinstance(r, list) and len(r) == 3 and r[1] == 'text')
        sa, sb = list(COLSETS[ia]), list(COLSETS[ib])
        wantcols = sorted(set(sa) & set(sb)) if columns == 'ij' else sorted(set(sa) | set(sb)) if columns == 'oj' else sa if columns == 'lj' else sb
        offs = want_offsets([oa, ob], join)
        for f, o_, cols_ in ((r[0], oa, ca), (r[2], ob, cb)):
            got = frame_cells(f)
            c.check('frames-are-put-onto-the-matching-common-column-set', sorted(got.keys()) == sorted(wantcols))
            for col in wantcols:
                c.check('frame-on-the-common-index', len(got[col]) == len(offs) and all(key(g[0]) == key(base) + o * core.US_DAY for g, o in zip(got[col], offs)))
                for g, o in zip(got[col], offs):
                    v = (asof(o_, cols_[col], o, method) if method else lookup(o_, cols_[col], o)) if col in cols_ else None
                    if method is None or col not in cols_: c.check('cell-intact-or-nan', feq(g[1], float('nan') if v is None else v))
                    else:
                        # with a fill method a frame is filled row by row (rows that are NaN in every column do not count as observations), so only the clause
                        # that does not depend on that reading is asserted: a cell the frame has at this very timestamp keeps its value
                        own = lookup(o_, cols_[col], o)
                        if own is not None and not V.is_nan(own): c.check('a-cell-present-at-a-surviving-timestamp-keeps-its-value-under-a-fill-method', feq(g[1], own))
    return h

def gate_frames_sync(stride = 1):
    """the real df_sync on lists of two frames under the real pandas vs under the minipd frame model"""
    import pandas as rpd, itertools, pyg_base._pandas as RP
    nan = float('nan'); grid = [_rdt.datetime(2020, 1, 1) + _rdt.timedelta(days = i) for i in range(3)]
    rowsets = [(), (0,), (0, 1), (1, 2)]
    cases = []
    for ia, ib in itertools.product(range(4), repeat = 2):
        for ra, rb in itertools.product(rowsets, repeat = 2):
            va = {col: [float(10 * j + i) if (i + j) % 3 else nan for i in range(len(ra))] for j, col in enumerate(COLSETS[ia])}
            vb = {col: [float(100 + 10 * j + i) for i in range(len(rb))] for j, col in enumerate(COLSETS[ib])}
            cases.append((ra, va, rb, vb))
    cases = cases[::stride]
    def run(Pm, mk):
        out = []
        for ra, va, rb, vb in cases:
            res = []
            for join in JOINS:
                for cols in ('ij', 'oj', 'lj', 'rj'):
                    for method in (None, 'ffill'):
                        A = mk(va, [grid[i] for i in ra]); B = mk(vb, [grid[i] for i in rb])
                        try:
                            r = Pm.df_sync([A, B], join = join, method = method, columns = cols); res.append([frame_cells(r[0]), frame_cells(r[1])])
                        except Exception as e: res.append('raised %s' % type(e).__name__)
            out.append(res)
        return out
    real = run(RP, lambda v, i: rpd.DataFrame({k: list(x) for k, x in v.items()}, index = rpd.DatetimeIndex(i), dtype = float))
    Pm = setup_pandas()
    model = run(Pm, lambda v, i: minipd.DataFrame({k: list(x) for k, x in v.items()}, index = list(i)))
    n = 0
    def same1(x, y):
        if sorted(x.keys()) != sorted(y.keys()): return False
        return all(len(x[c]) == len(y[c]) and all(p[0] == q[0] and (p[1] == q[1] or (p[1] != p[1] and q[1] != q[1])) for p, q in zip(x[c], y[c])) for c in x)
    for case, ra_, ma_ in zip(cases, real, model):
        for x, y in zip(ra_, ma_):
            n += 1
            ok = (isinstance(x, str) and isinstance(y, str)) or (not isinstance(x, str) and not isinstance(y, str) and same1(x[0], y[0]) and same1(x[1], y[1]))
            if not ok: return False, dict(mismatch = str(case)[:300], real = str(x)[:400], model = str(y)[:400])
    return True, dict(comparisons = n, cases = len(cases))

def obligations(tier):
    q = tier == 'quick'; N = 2 if q else 3
    S = setup_pandas
    obs = [Ob('gate.minipd-vs-pandas', minipd.gate, engine = 'gate', desc = 'the pandas model equals the real pandas on an exhaustive small grid')]
    shapes2 = [(a, b) for a in range(N + 1) for b in range(N + 1) if not (q and a + b > 3)]
    for join in JOINS:
        for method in (None, 'ffill', 'bfill'):
            for (a, b) in shapes2:
                for shape in ('list', 'dict'):
                    if shape == 'dict' and (a, b) not in ((1, 2), (2, 1), (0, 2)): continue
                    obs.append(Ob('sync.%s.%s.%s.%dx%d' % (shape, join, method, a, b), h_sync((a, b, 0), shape, join, method), setup = S, budget_s = 300 if q else 1500,
                                  desc = 'df_sync of a %s with Series of %d and %d rows (+ scalar, string, None), join %s, method %s' % (shape, a, b, join, method)))
            for trip in ([(1, 1, 1), (2, 1, 1)] if q else [(1, 1, 1), (2, 1, 1), (1, 2, 2), (2, 2, 1)]):
                for shape in ('list3', 'nested'):
                    obs.append(Ob('sync.%s.%s.%s.%s' % (shape, join, method, 'x'.join(map(str, trip))), h_sync(trip, shape, join, method), setup = S, budget_s = 300 if q else 1500,
                                  desc = 'df_sync of three Series (%s rows) in a %s, join %s, method %s' % (trip, 'list' if shape == 'list3' else 'dict with a nested list', join, method)))
    obs.append(Ob('gate.frame-model', (lambda: gate_frames_sync(3)) if q else gate_frames_sync, engine = 'gate', budget_s = 900, desc = 'df_sync of frames under the DataFrame model == under the real pandas on an exhaustive small domain'))
    for columns in ('ij', 'oj', 'lj', 'rj'):
        for join in (('ij', 'oj') if q else JOINS):
            for ia, ib in ([(1, 2), (3, 0)] if q else [(i, j) for i in range(4) for j in range(4)]):
                for na, nb in ([(1, 1)] if q else [(1, 1), (2, 1), (0, 2)]):
                    obs.append(Ob('frames.%s-cols.%s.%s.%s.%dx%d' % (columns, ''.join(COLSETS[ia]), ''.join(COLSETS[ib]), join, na, nb), h_frames_sync(na, nb, ia, ib, join, columns), setup = S, budget_s = 300 if q else 1500,
                                  desc = 'df_sync of frames with columns %s and %s: column policy %s, index policy %s' % (COLSETS[ia], COLSETS[ib], columns, join)))
    for na, nb in [(0, 0), (0, 1), (1, 0)]:
        for method in (None, 'ffill'):
            obs.append(Ob('frames.empty.%dx%d.%s' % (na, nb, method), h_frames_sync(na, nb, 1, 2, 'oj', 'oj', method), setup = S, budget_s = 300, desc = 'df_sync of frames without rows keeps the common column set (method %s)' % method))
    for method in ('ffill', 'bfill'):
        for join in (('oj',) if q else ('oj', 'ij', 'lj')):
            for na, nb in ([(2, 1)] if q else [(2, 1), (2, 2)]):
                obs.append(Ob('frames.filled.%s.%s.%dx%d' % (method, join, na, nb), h_frames_sync(na, nb, 1, 2, join, 'oj', method), setup = S, budget_s = 300 if q else 1500,
                              desc = 'df_sync of two-column frames (cells may be NaN) with fill method %s, join %s: a cell present at a surviving timestamp keeps its value' % (method, join)))
    for columns in ('ij', 'oj'):
        for ia, ib in [(1, 2), (3, 0)]:
            obs.append(Ob('frames.nested.%s-cols.%s.%s' % (columns, ''.join(COLSETS[ia]), ''.join(COLSETS[ib])), h_frames_sync(1, 1, ia, ib, 'oj', columns, None, True), setup = S, budget_s = 300,
                          desc = 'df_sync of a frame and a frame nested in a dict of lists: both go onto the common column set (policy %s)' % columns))
    for method in (None, 'ffill', 'bfill'):
        for n, m in ([(1, 2), (2, 2)] if q else [(1, 2), (2, 2), (3, 2), (2, 3)]):
            obs.append(Ob('reindex.explicit.%s.%dx%d' % (method, n, m), h_reindex_explicit(n, m, method), setup = S, budget_s = 300, desc = 'df_reindex onto an explicitly supplied index, method %s' % method))
    for join in JOINS:
        for na, nb in ([(1, 1), (2, 1)] if q else [(1, 1), (2, 1), (2, 2)]):
            obs.append(Ob('presync.%s.%dx%d' % (join, na, nb), h_presync(join, na, nb), setup = S, budget_s = 300, desc = 'a presync-decorated function sees its (nested) timeseries arguments on the common index, join %s' % join))
        for k in (2, 3):
            obs.append(Ob('arrays.%s.%d' % (join, k), h_arrays(join, k), setup = S, budget_s = 300, desc = '%d bare arrays of lengths 0..3 are aligned at the end (join %s)' % (k, join)))
        obs.append(Ob('arrays2d.%s' % join, h_arrays2d(join), setup = S, budget_s = 300, desc = 'two bare 2-d arrays (0..2 rows x 2 columns) are aligned at the end and keep their columns (join %s)' % join))
    return obs
