"""C07 cmp is a total preorder over mixed types; sort / dictable.sort follow it stably."""
import datetime as _rdt, itertools
from vf.runner import Ob
from vf.symx import core, shims, ops as X
from . import values as V
from .dates_common import setup_dates

FUNCS = ['pyg_base._sort:cmp', 'pyg_base._sort:cmparr', 'pyg_base._sort:Cmp', 'pyg_base._sort:sort', 'pyg_base._as_primitive:_as_primitive',
         'pyg_base._as_primitive:as_primitive', 'pyg_base._types:is_nan', 'pyg_base._loop:len0', 'pyg_base._dictable:dictable.sort',
         'pyg_base._dictable:dictable.__getitem__']
BOUNDS = dict(cmp_universe = 'None | any bool | any int |i|<=2^40 | any float (finite multiples of 0.5 up to 2^19, NaN, +inf, -inf; NaN objects of same or '
                             'different identity) | 5 strings | any datetime 1900-2300 (to the second) | date | numpy scalar pool; tuples/lists/dicts (keys a,b) '
                             'of length 0..2 (quick: 0..1 for triples) of these; nesting depth 1 (thorough: one more level for pairs)',
              sort_universe = 'lists of length <= 3 (thorough 4) of None | int | finite float | NaN | str | datetime, and of equal-length 2-tuples of them',
              dictable_sort = 'tables of <= 3 rows (thorough 4), 1..2 key columns with cells None | int | str (and int | finite float | NaN), key function, value orders over a 4-string pool')
OUTSIDE = ['numpy arrays and pandas objects as cmp operands', 'float rounding (floats are extended reals)', 'containers longer than 2 or deeper than 2', 'lists longer than 4']
ASSUMPTIONS = ['floats are modelled as extended reals (kind + exact real value); float(int) is exact for |int| <= 2^40',
               'np.isnan/np.isinf on python scalars are replaced by proxy-aware versions (arrays still go to numpy)',
               'strings are drawn from a fixed pool by a solver-chosen index (string order is computed by CPython)']

NPPOOL = None
def nppool():
    import numpy as np
    return [np.int64(3), np.float64(2.5), np.float64('nan'), np.bool_(True), np.int32(-1)]

def setup():
    import pyg_base._sort as S, pyg_base._types as T, pyg_base._as_primitive as AP
    setup_dates()
    np_ = shims.NP()
    shims.patch(S, float = shims.shim_float, type = shims.shim_type, np = np_)
    shims.patch(T, np = np_)
    shims.patch(AP, int = shims.shim_int, float = shims.shim_float)

def _S():
    import pyg_base._sort as S
    return S

ALL = ['none', 'bool', 'int', 'float', 'str', 'dt', 'date', 'np']
def gen(c, name, depth, maxlen, pool = None, kinds = ALL, inner = None):
    if depth <= 0: return V.scalar(c, name, kinds, pool)
    k = c.pick(name + '.shape', ['scalar', 'tuple', 'list', 'dict'])
    if k == 'scalar': return V.scalar(c, name, kinds, pool)
    n = c.choice(name + '.len', maxlen + 1)
    items = [gen(c, '%s.%d' % (name, i), depth - 1, maxlen, pool, inner or kinds, inner) for i in range(n)]
    return tuple(items) if k == 'tuple' else items if k == 'list' else dict(zip('ab', items))

def flat(v):
    if isinstance(v, (tuple, list)): return [x for i in v for x in flat(i)]
    if isinstance(v, dict): return [x for i in v.values() for x in flat(i)]
    return [v]

def _floats(vs): return [x for v in vs for x in flat(v) if isinstance(x, (float, core.SymFloat)) and x.__class__ is float]

def h_antisym(depth, maxlen):
    def h(c):
        S = _S()
        x = gen(c, 'x', depth, maxlen); y = gen(c, 'y', depth, maxlen, pool = _floats([x]))
        a = S.cmp(x, y); b = S.cmp(y, x)
        c.check('result-in-range', a in (-1, 0, 1) and b in (-1, 0, 1))
        c.check('antisymmetric', a == -b)
        c.check('reflexive', S.cmp(x, x) == 0)
    return h

def h_trans(depth, maxlen, kinds, inner):
    def h(c):
        S = _S()
        x = gen(c, 'x', depth, maxlen, kinds = kinds, inner = inner); y = gen(c, 'y', depth, maxlen, _floats([x]), kinds, inner)
        z = gen(c, 'z', depth, maxlen, _floats([x, y]), kinds, inner)
        xy = S.cmp(x, y); yz = S.cmp(y, z); xz = S.cmp(x, z)
        if xy <= 0 and yz <= 0: c.check('transitive', xz <= 0)
        if xy == 0: c.check('equivalent-values-compare-alike', xz == yz)
        if xy < 0 and yz == 0 or xy == 0 and yz < 0: c.check('strict-with-equal-is-strict', xz < 0)
    return h

def h_numeric(c):
    S = _S()
    i = c.int('i', -V.INT_B, V.INT_B); f = c.float('f'); g = c.float('g', allow = (core.FIN,)); n = c.float('n', allow = (core.NAN,))
    if f == i: c.check('int-equals-same-valued-float', S.cmp(i, f) == 0 and S.cmp(f, i) == 0)
    c.check('nan-above-finite-float', S.cmp(n, g) == 1 and S.cmp(g, n) == -1)
    c.check('nan-above-int', S.cmp(n, i) == 1 and S.cmp(i, n) == -1)
    if i < g: c.check('int-float-order', S.cmp(i, g) == -1)
    c.check('nan-equals-nan', S.cmp(n, c.float('n2', allow = (core.NAN,))) == 0)
    c.check('none-smallest', S.cmp(None, i) == -1 and S.cmp(None, f) == -1)

SORTK = ['none', 'int', 'ffloat', 'nan', 'str', 'dt']
def ids(xs): return sorted(id(x) for x in xs)

def cls_sort(model, failed):
    """known/fixed classifier: native sort applied to a list with NaN next to numbers"""
    return None

def h_sort(n, tuples):
    def h(c):
        S = _S()
        if tuples: xs = [(V.scalar(c, 'x%d.0' % i, SORTK), V.scalar(c, 'x%d.1' % i, SORTK)) for i in range(n)]
        else: xs = [V.scalar(c, 'x%d' % i, SORTK) for i in range(n)]
        snapshot = list(xs)
        c.cover('has-nan', X.Or([V.is_nan(v) for x in xs for v in flat(x)])) if n else None
        res = S.sort(xs)
        c.check('returns-list-of-same-length', isinstance(res, list) and len(res) == n)
        c.check('permutation', ids(res) == ids(snapshot))
        c.check('argument-unchanged', len(xs) == n and all(a is b for a, b in zip(xs, snapshot)))
        for a, b in zip(res[:-1], res[1:]):
            c.check('non-decreasing-under-cmp', S.cmp(a, b) <= 0)
    return h

# ---- dictable.sort
CELLK = ['none', 'int', 'str']
def mk_table(c, nrows, ncols, kinds = CELLK):
    from pyg_base import dictable
    cols = {}
    for j in range(ncols):
        cols['k%d' % j] = [V.scalar(c, 'c%d.%d' % (j, i), kinds) for i in range(nrows)]
    cols['rid'] = list(range(nrows))
    return dictable(**{k: list(v) for k, v in cols.items()}), cols

def h_dsort(nrows, ncols, how, kinds = CELLK):
    def h(c):
        S = _S()
        d, cols = mk_table(c, nrows, ncols, kinds)
        if 'nan' in kinds and nrows: c.cover('a-nan-key', X.Or([V.is_nan(v) for j in range(ncols) for v in cols['k%d' % j]]))
        keys = ['k%d' % j for j in range(ncols)]
        if how == 'list-rev': keys = keys[::-1]               # the keys in another order than their names sort
        if how == 'cols': r = d.sort(*keys)
        elif how in ('list', 'list-rev'): r = d.sort(list(keys))
        else: r = d.sort(lambda k0: k0)
        rid = list(r['rid'])
        c.check('permutation-of-rows', sorted(rid) == list(range(nrows)))
        c.check('columns-kept', list(r.keys()) == list(d.keys()) and len(r) == nrows)
        for j in range(ncols):
            c.check('rows-intact', all(r['k%d' % j][p] is cols['k%d' % j][i] for p, i in enumerate(rid)))
        kk = keys if how != 'func' else keys[:1]
        def keyof(i): return tuple(cols[k][i] for k in kk)
        for p in range(nrows - 1):
            a, b = rid[p], rid[p + 1]
            o = S.cmp(keyof(a), keyof(b))
            c.check('ordered-by-keys', o <= 0)
            if o == 0: c.check('stable-ties-keep-original-order', a < b)
        c.check('operand-unchanged', list(d['rid']) == list(range(nrows)) and all(d[k][i] is cols[k][i] for k in keys for i in range(nrows)))
        r2 = r.sort(*keys) if how != 'func' else r.sort(lambda k0: k0)
        c.check('idempotent', list(r2['rid']) == rid)
    return h

POOL4 = ['a', 'b', 'c', 'zz']
def h_dsort_byval(nrows, order):
    """explicit value orders: listed values in the given order, unlisted last, stable"""
    def h(c):
        from pyg_base import dictable
        vals = [c.pick('v%d' % i, POOL4 + [None]) for i in range(nrows)]
        d = dictable(key = list(vals), rid = list(range(nrows)))
        r = d.sort(key = list(order))
        rid = list(r['rid'])
        rank = lambda v: order.index(v) if v in order else len(order)
        want = sorted(range(nrows), key = lambda i: (rank(vals[i]), i))
        c.cover('unlisted-present', any(v not in order for v in vals)) if nrows else None
        c.check('listed-in-given-order-unlisted-last-stable', rid == want)
        c.check('operand-unchanged', list(d['rid']) == list(range(nrows)))
    return h

def obligations(tier):
    q = tier == 'quick'
    obs = [Ob('cmp.antisymmetric.depth1', h_antisym(1, 1 if q else 2), setup = setup, budget_s = 300 if q else 1500,
              desc = 'cmp(x,y) in {-1,0,1}, == -cmp(y,x), never raises: all pairs, containers of length <= %d' % (1 if q else 2)),
           Ob('cmp.transitive.scalars', h_trans(0, 0, ALL, None), setup = setup, budget_s = 300, desc = 'transitivity over all triples of scalars'),
           Ob('cmp.numeric', h_numeric, setup = setup, desc = 'int == same-valued float; NaN above finite; None smallest')]
    tk = ['none', 'int', 'float'] if q else ['none', 'int', 'float', 'str', 'bool']
    for i, sx in enumerate(['scalar', 'tuple', 'list', 'dict']):
        for j, sy in enumerate(['scalar', 'tuple', 'list', 'dict']):
            obs.append(Ob('cmp.transitive.containers.%s-%s' % (sx, sy), h_trans(1, 1 if q else 2, tk, tk), setup = setup, pins = {'x.shape': i, 'y.shape': j},
                          budget_s = 300 if q else 1500, desc = 'transitivity over triples (x a %s, y a %s, z anything) of scalars and containers of length <= %d' % (sx, sy, 1 if q else 2)))
    for i, sx in enumerate(['scalar', 'tuple', 'list', 'dict']):
        if i: obs.append(Ob('cmp.transitive.containers.bool-vs-number.%s' % sx, h_trans(1, 1 if q else 2, ['bool', 'int', 'float'], ['bool', 'int', 'float']), setup = setup, pins = {'x.shape': i, 'y.shape': i, 'z.shape': i},
                            budget_s = 300 if q else 1500, desc = 'transitivity / equivalence classes over triples of %ss holding bools, ints and floats (True == 1 in python, not under cmp)' % sx))
    if not q:
        obs.append(Ob('cmp.antisymmetric.depth2', h_antisym(2, 1), setup = setup, budget_s = 1500, desc = 'antisymmetry, nesting depth 2, length <= 1'))
    for n in range(0, 4 if q else 5):
        obs.append(Ob('sort.scalars.%d' % n, h_sort(n, False), setup = setup, budget_s = 300 if n < 4 else 1500, desc = 'sort of %d mixed scalars: permutation, non-decreasing under cmp, no raise' % n))
    for n in range(1, 3 if q else 4):
        for i, k in enumerate(SORTK):
            obs.append(Ob('sort.tuples.%d.%s' % (n, k), h_sort(n, True), setup = setup, pins = {'x0.0.kind': i}, budget_s = 300 if n < 3 else 1500,
                          desc = 'sort of %d 2-tuples of mixed scalars (first cell a %s)' % (n, k)))
    for nrows in range(0, 4 if q else 5):
        for ncols, how in [(1, 'cols'), (2, 'cols'), (1, 'func'), (2, 'list')]:
            if nrows >= 3 and ncols == 2 and (q or how == 'list' or nrows > 3): continue
            obs.append(Ob('dictable.sort.%s.%dx%d' % (how, nrows, ncols), h_dsort(nrows, ncols, how), setup = setup, budget_s = 300 if nrows < 4 else 1500,
                          desc = 'dictable.sort by %d key column(s) (%s), %d rows: stable permutation ordered under cmp, idempotent' % (ncols, how, nrows)))
    for nrows in range(2, 4 if q else 5):
        obs.append(Ob('dictable.sort.list-reversed.%dx2' % nrows, h_dsort(nrows, 2, 'list-rev', ['int']), setup = setup, budget_s = 300 if nrows < 4 else 1500,
                      desc = 'dictable.sort([k1, k0]) (a list of keys whose order differs from the alphabetical order of their names), %d rows: ordered by the keys as given' % nrows))
    for nrows in range(2, 4 if q else 5):
        for ncols in (1, 2):
            if ncols == 2 and nrows > (2 if q else 3): continue
            obs.append(Ob('dictable.sort.float-keys.%dx%d' % (nrows, ncols), h_dsort(nrows, ncols, 'cols', ['int', 'ffloat', 'nan']), setup = setup, budget_s = 300 if nrows < 4 else 1500,
                          desc = 'dictable.sort by %d key column(s) holding ints, floats and NaN, %d rows: stable permutation ordered under cmp, idempotent' % (ncols, nrows)))
    for nrows in range(0, 4 if q else 5):
        for order in (['c', 'a', 'b'], ['b'], ['a', 'b', 'c', 'zz']):
            obs.append(Ob('dictable.sort.byval.%d.%s' % (nrows, ''.join(order)), h_dsort_byval(nrows, order), setup = setup, desc = 'explicit value order %s on %d rows' % (order, nrows)))
    return obs
