"""C16 ulist, dictattr and Dict implement ordered set/key algebra without side effects."""
import itertools
from vf.runner import Ob
from vf.symx import core, shims, ops as X

FUNCS = ['pyg_base._ulist:ulist.__init__', 'pyg_base._ulist:ulist.__add__', 'pyg_base._ulist:ulist.__sub__', 'pyg_base._ulist:ulist.__and__', 'pyg_base._ulist:ulist.copy',
         'pyg_base._dictattr:dictattr.__sub__', 'pyg_base._dictattr:dictattr.__and__', 'pyg_base._dictattr:dictattr.__add__', 'pyg_base._dictattr:dictattr.__getitem__',
         'pyg_base._dictattr:dictattr.__getattr__', 'pyg_base._dictattr:dictattr.relabel', 'pyg_base._dictattr:dictattr.keys', 'pyg_base._dictattr:relabel',
         'pyg_base._dict:Dict.__call__', 'pyg_base._dict:Dict.apply', 'pyg_base._inspect:getargs']
BOUNDS = dict(ulist = 'CrossHair: lists of 0..3 arbitrary ints on each side (the elements are hashed by set())',
              mappings = 'symx: mappings over the key pool {a,b,c,d}, any subset present, values arbitrary ints; key selections = every list of 0..2 pool keys (present, absent, mixed) '
                         'and single keys; classes dictattr, Dict and a local subclass',
              graphs = 'Dict.__call__: 3 derived keys (thorough 4), each with a solver-chosen argument tuple over {x, p, q, r[, s]} (self-loops, cycles and redefinition of existing '
                       'keys included), every keyword order')
OUTSIDE = ['ulists of non-int elements', 'more than 4 derived keys (statement: 6)', 'nested-key (tuple / dotted) subtraction']
ASSUMPTIONS = ['ulist obligations are decided by CrossHair (verdict "Confirmed over all paths" within the argument bounds of the harness); the rest by symx']

POOL = ['a', 'b', 'c', 'd']
def classes():
    from pyg_base import dictattr, Dict
    class Sub(dictattr): pass
    return [dictattr, Dict, Sub]

def mapping(c, name, cls):
    present = [k for k in POOL if c.choice('%s.has.%s' % (name, k), 2)]
    vals = {k: c.int('%s.%s' % (name, k), -9, 9) for k in present}
    return cls(vals), vals

def selection(c, name):
    n = c.choice(name + '.n', 3)
    return [c.pick('%s.%d' % (name, i), POOL) for i in range(n)]

def same_items(m, want):
    """same keys in the same order, the very same value objects"""
    return list(m.keys()) == list(want.keys()) and all(m[k] is want[k] for k in want)

def h_algebra(ci):
    def h(c):
        cls = classes()[ci]
        d, vals = mapping(c, 'd', cls); snap = dict(vals)
        sel = selection(c, 'sel')
        r = d - sel
        c.check('minus-keys', same_items(r, {k: v for k, v in vals.items() if k not in sel}) and type(r) is cls and r is not d)
        if len(sel) >= 1:
            r1 = d - sel[0]
            c.check('minus-one-key', same_items(r1, {k: v for k, v in vals.items() if k != sel[0]}) and type(r1) is cls and r1 is not d)
        a = d & sel
        c.check('and-keys', same_items(a, {k: v for k, v in vals.items() if k in sel}) and type(a) is cls)
        if all(k in vals for k in sel):
            g = d[sel]
            uniq = {}
            for k in sel: uniq[k] = vals[k]
            c.check('getitem-list-of-keys', same_items(g, uniq) and type(g) is cls)
            tup = d[tuple(sel)] if len(sel) else []
            c.check('getitem-tuple-gives-list-of-values', isinstance(tup, list) and len(tup) == len(sel) and all(x is vals[k] for x, k in zip(tup, sel)))
            for k in sel: c.check('attribute-mirrors-item', getattr(d, k) is d[k])
        else:
            try:
                d[sel]; c.fail('getitem-of-absent-key-does-not-raise')
            except KeyError: pass
        o, ovals = mapping(c, 'o', dict)
        p = d + o
        want = dict(vals); want.update(ovals)
        c.check('plus-is-copy-and-update', same_items(p, want) and type(p) is cls and p is not d)
        c.check('keys-is-a-ulist', type(d.keys()).__name__ == 'ulist' and list(d.keys()) == list(vals.keys()))
        c.check('d-unchanged', same_items(d, snap) and same_items(o, ovals))
    return h

UPOOL = ['_a', '__b', 'c_', 'keys']
def h_attr(ci):
    """attribute access mirrors item access for every key, also keys that start with an underscore or carry the name of a dict method"""
    def h(c):
        cls = classes()[ci]
        present = [k for k in UPOOL if c.choice('d.has.%s' % k, 2)]
        vals = {k: c.int('d.%s' % k, -9, 9) for k in present}
        d = cls(vals)
        for k in UPOOL:
            if k in vals:
                if k != 'keys': c.check('attribute-mirrors-item-for-underscore-keys', hasattr(d, k) and getattr(d, k) is vals[k] and d[k] is vals[k])
            elif k in ('_a', 'c_'):
                try:
                    getattr(d, k); c.fail('absent-key-is-no-attribute')
                except AttributeError: pass
        r = d.relabel(c_ = '_c') if 'c_' in vals and '_c' not in vals else None
        if r is not None: c.check('attribute-mirrors-item-after-relabel-to-an-underscore-name', getattr(r, '_c') is vals['c_'])
        c.check('d-unchanged', same_items(d, vals))
    return h

def h_relabel(ci):
    def h(c):
        cls = classes()[ci]
        d, vals = mapping(c, 'd', cls); snap = dict(vals)
        how = c.pick('how', ['suffix', 'prefix', 'callable', 'kw', 'dict', 'swap', 'chain'])
        if how == 'suffix': r = d.relabel('_x'); f = lambda k: k + '_x'
        elif how == 'prefix': r = d.relabel('y_'); f = lambda k: 'y_' + k
        elif how == 'callable': r = d.relabel(lambda k: k.upper()); f = lambda k: k.upper()
        elif how == 'kw': r = d.relabel(a = 'z'); f = lambda k: 'z' if k == 'a' else k
        elif how == 'swap': r = d.relabel(a = 'b', b = 'a'); f = lambda k: dict(a = 'b', b = 'a').get(k, k)              # renames are simultaneous: two labels can be swapped
        elif how == 'chain': r = d.relabel(dict(a = 'b', b = 'c', c = 'zz')); f = lambda k: dict(a = 'b', b = 'c', c = 'zz').get(k, k)
        else: r = d.relabel(dict(b = 'w', q = 'nothing')); f = lambda k: 'w' if k == 'b' else k
        c.check('relabel', same_items(r, {f(k): v for k, v in vals.items()}) and type(r) is cls and r is not d)
        c.check('d-unchanged', same_items(d, snap))
    return h

# ---- Dict.__call__ : dependency graphs
def argsets(keys):
    names = ['x'] + keys
    out = [()] + [(n,) for n in names] + [(a, b) for a, b in itertools.combinations(names, 2)]
    return out

def mkfun(idx, args):
    src = 'lambda %s: %d%s' % (', '.join(args), 100 * (idx + 1), ''.join(' + ' + a for a in args))
    return eval(src)

def oracle(base, defs, keys):
    """documented semantics: callables are evaluated once all the callables they take by name are done; a stall is a circular definition.
    A single callable is applied directly (it may read the old value of the key it redefines)."""
    res = dict(base); todo = dict(defs)
    if len(todo) == 1:
        (k, (args, f)), = todo.items()
        if any(a not in res for a in args): return 'missing'
        res[k] = f(*[res[a] for a in args]); return res
    while len(todo) > 1:
        ready = [k for k, (args, f) in todo.items() if not (set(args) & set(todo))]
        if not ready: return 'cycle'
        for k in ready:
            args, f = todo[k]
            if any(a not in res for a in args): return 'missing'
            res[k] = f(*[res[a] for a in args])
        todo = {k: v for k, v in todo.items() if k not in ready}
    for k, (args, f) in todo.items():
        if any(a not in res for a in args): return 'missing'
        res[k] = f(*[res[a] for a in args])
    return res

def h_call(keys):
    opts = argsets(keys)
    def h(c):
        from pyg_base import Dict
        base = dict(x = c.int('x', -9, 9))
        for k in keys:
            if c.choice('pre.' + k, 2): base[k] = c.int('old.' + k, -9, 9)       # the derived key may already exist (redefinition)
        defs = {}
        for i, k in enumerate(keys):
            args = opts[c.choice('args.' + k, len(opts))]
            defs[k] = (args, mkfun(i, args))
        want = oracle(base, defs, keys)
        c.cover('cycle', want == 'cycle'); c.cover('chain', want not in ('cycle', 'missing') and any(set(a) & set(keys) for a, f in defs.values()))
        outcomes = []
        for order in itertools.permutations(keys):
            d = Dict(base); snap = dict(base)
            try:
                r = d(**{k: defs[k][1] for k in order}); out = dict(r)
            except ValueError: out = 'cycle'
            except TypeError: out = 'missing'
            except KeyError: out = 'missing'
            outcomes.append(out)
            c.check('Dict-unchanged-by-call', list(d.keys()) == list(snap.keys()) and all(d[k] is snap[k] for k in snap))
        for out in outcomes:
            if want == 'cycle': c.check('circular-definitions-raise-ValueError', out == 'cycle')
            elif want == 'missing': c.check('missing-argument-is-an-error-in-every-order', out in ('missing', 'cycle'))
            else:
                c.check('evaluated-in-dependency-order-regardless-of-keyword-order', isinstance(out, dict) and set(out) == set(want) and X.And([out[k] == want[k] for k in want]))
    return h

def obligations(tier):
    q = tier == 'quick'
    obs = []
    for fn in ['init', 'add_list', 'add_elem', 'sub_and', 'sub_and_elem']:
        obs.append(Ob('ulist.' + fn, 'check_' + fn, engine = 'chx', module = 'vf.chxh.c16', twin = 'reach_' + fn, budget_s = 120 if q else 600,
                      desc = 'ulist %s == ordered-set oracle, no duplicates, result type ulist, operands unchanged (CrossHair, lists of <= 3 ints)' % fn))
    names = ['dictattr', 'Dict', 'subclass']
    for ci in range(3):
        for nsel in range(3):
            obs.append(Ob('algebra.%s.sel%d' % (names[ci], nsel), h_algebra(ci), pins = {'sel.n': nsel}, budget_s = 300 if q else 1200,
                          desc = 'd - keys, d & keys, d[keys], d[k1,k2], d + other, attribute access, class kept, d unchanged (%s, %d selected keys)' % (names[ci], nsel)))
        obs.append(Ob('attribute.unusual-keys.%s' % names[ci], h_attr(ci), budget_s = 300, desc = 'getattr(d, k) is d[k] for keys starting with underscores / ending with one; an absent key is an AttributeError'))
        obs.append(Ob('relabel.%s' % names[ci], h_relabel(ci), budget_s = 300, desc = 'relabel (suffix, prefix, callable, keyword, dict, a swap of two labels, a chain a->b->c) returns a new mapping of the same class with all renames applied at once'))
    keys = ['p', 'q', 'r'] if q else ['p', 'q', 'r', 's']
    opts = argsets(keys)
    for i, a in enumerate(opts):
        obs.append(Ob('call.%s.p(%s)' % (len(keys), ','.join(a)), h_call(keys), pins = {'args.p': i}, budget_s = 300 if q else 2400,
                      desc = 'Dict.__call__ on %d derived keys (p takes %s; the others any arguments): dependency order in every keyword order, ValueError on cycles' % (len(keys), a or 'nothing')))
    return obs
