"""C01 dictable behaves as a rectangular list of records under any operation history.

'Any history' is reduced to one step from an arbitrary valid state: a dictable has no state beyond its {column: list} mapping, so every public
operation is checked from every table inside the size bound (with symbolic cells) against a list-of-records model, together with
rectangularity of the result and immutability of the operands; a two-step family (operation, then in-place change of its result) covers
aliasing between a result and its operands."""
from vf.runner import Ob
from vf.symx import core, shims, ops as X
from . import values as V

FUNCS = ['pyg_base._dictable:dictable.__init__', 'pyg_base._dictable:dictable.__len__', 'pyg_base._dictable:dictable.__iter__', 'pyg_base._dictable:dictable.__setitem__',
         'pyg_base._dictable:dictable.__getitem__', 'pyg_base._dictable:dictable.__delattr__', 'pyg_base._dictable:dictable.get', 'pyg_base._dictable:dictable.update',
         'pyg_base._dictable:dictable.apply', 'pyg_base._dictable:dictable.do', 'pyg_base._dictable:dictable.concat', 'pyg_base._dictable:dictable.__add__',
         'pyg_base._dictable:dict_concat', 'pyg_base._dictable:_value', 'pyg_base._dictable:_data_columns_as_dict', 'pyg_base._zip:lens', 'pyg_base._zip:zipper',
         'pyg_base._dict:Dict.__call__', 'pyg_base._dictattr:dictattr.relabel', 'pyg_base._dictattr:dictattr.__sub__']
BOUNDS = dict(state = 'every table with 0..2 rows (thorough 3) and 0..2 columns a, b (includes the empty table and columns without rows)',
              cells = 'None | any int | float (finite, NaN) | string 2-pool | datetime: the kind of each cell is a solver-chosen tag in the mixed-cell obligations, symbolic ints elsewhere',
              operations = 'constructors (keyword columns with scalar / length-1 broadcast, records with different key sets, rows+headers, dict of columns, two lengths -> ValueError), '
                           'int index, slices with symbolic bounds and step in {None,1,2,-1}, bool mask, int list, column list, tuple, callable, column assignment of every length 0..rows+1, '
                           'scalar assignment, update, attribute assignment, deletion, derived column, relabel, do, get, concat with different column sets, + record, + None, + 0, iteration; '
                           'two-step: in-place change of a result, then re-inspection of the operand')
OUTSIDE = ['construction from files, DataFrames, cursors', 'cells that are containers', 'tables larger than 3 x 2', 'histories are covered step-wise (one inductive step from any valid state), not by enumerating sequences']
ASSUMPTIONS = ['representation invariant assumed for the pre-state: every column is a list and all columns have the same length (re-established by every checked operation)']

def tbl(c, n, m, mixed = False, name = 't'):
    from pyg_base import dictable
    cols = {}
    for k in 'ab'[:m]:
        cols[k] = [V.scalar(c, '%s.%s%d' % (name, k, i), ['int', 'none', 'float', 'str', 'dt'], strs = ['s', '']) if mixed else c.int('%s.%s%d' % (name, k, i), -9, 9) for i in range(n)]
    d = dictable({k: list(v) for k, v in cols.items()}) if m else (dictable() if n == 0 else None)
    return d, cols

def rect(d):
    ls = [len(v) for v in dict.values(d)]
    return all(isinstance(v, list) for v in dict.values(d)) and (len(set(ls)) <= 1)
def same_cols(d, cols, ordered = True):
    """d holds exactly these columns with the very same cell objects"""
    ks = list(dict.keys(d))
    if (ks != list(cols.keys())) if ordered else (set(ks) != set(cols.keys())): return False
    return all(len(dict.__getitem__(d, k)) == len(cols[k]) and all(x is y for x, y in zip(dict.__getitem__(d, k), cols[k])) for k in cols)
def nrows(cols): return len(next(iter(cols.values()))) if cols else 0
def records(cols): return [{k: cols[k][i] for k in cols} for i in range(nrows(cols))]

def basic(c, d, cols):
    n = nrows(cols)
    c.check('rectangular', rect(d))
    c.check('len-and-shape', len(d) == n and d.shape == (n, len(cols)))
    rows = list(d)
    c.check('iteration-yields-the-rows', len(rows) == n and all(list(r.keys()) == list(cols.keys()) and all(r[k] is cols[k][i] for k in cols) for i, r in enumerate(rows)))
    for i in range(n):
        for k in cols: c.check('d[i][c]==d[c][i]', d[i][k] is d[k][i])

def h_state(n, m, mixed):
    def h(c):
        d, cols = tbl(c, n, m, mixed)
        c.check('holds-the-columns', same_cols(d, cols)); basic(c, d, cols)
        c.check('get-default', d.get('zz', 5) == [5] * n and (m == 0 or d.get('a') is d['a']))
    return h

def h_construct(n, how):
    def h(c):
        from pyg_base import dictable
        a = [c.int('a%d' % i, -9, 9) for i in range(n)]; s = c.int('s', -9, 9)
        if how == 'kw-scalar':
            d = dictable(a = list(a), b = s); want = dict(a = a, b = [s] * max(n, 1) if n != 0 else [])
            if n == 0: want = dict(a = [], b = [s]) if False else None
        elif how == 'kw-len1':
            d = dictable(a = list(a), b = [s]); want = dict(a = a, b = [s] * n) if n >= 1 else None
        elif how == 'records':
            recs = [dict(a = a[i], b = s) if i % 2 == 0 else dict(a = a[i], z = s) for i in range(n)]
            d = dictable(recs)
            want = dict(a = a, b = [s if i % 2 == 0 else None for i in range(n)], z = [None if i % 2 == 0 else s for i in range(n)]) if n >= 2 else (dict(a = a, b = [s]) if n == 1 else {})
        elif how == 'rows-headers':
            d = dictable([[a[i], s] for i in range(n)], ['a', 'b']); want = dict(a = a, b = [s] * n)
        elif how == 'dict':
            d = dictable(dict(a = list(a), b = [s] * n)); want = dict(a = a, b = [s] * n)
        if want is None:                         # broadcasting against an empty column: only rectangularity is required
            c.check('rectangular', rect(d)); return
        c.check('constructed-table-equals-the-records', set(d.keys()) == set(want.keys()) and all(len(d[k]) == len(want[k]) and X.And([x is y or (x == y) for x, y in zip(d[k], want[k])] + [True]) for k in want))
        c.check('rectangular', rect(d)); c.check('len', len(d) == nrows(want))
    return h

def h_two_lengths(c):
    from pyg_base import dictable
    la = c.pick('la', [0, 2, 3]); lb = c.pick('lb', [0, 2, 3])
    if la == lb: return
    try:
        dictable(a = list(range(la)), b = list(range(lb))); c.fail('two-different-lengths-are-not-rejected')
    except ValueError: pass

def h_index(n, m):
    def h(c):
        d, cols = tbl(c, n, m); snap = {k: list(v) for k, v in cols.items()}
        kind = c.pick('kind', ['int', 'slice', 'mask', 'ints', 'cols', 'tuple', 'callable'])
        if kind == 'int':
            if n == 0: return
            i = c.int('i', -n, n - 1); r = d[i]; j = core.CUR.concretize_int(core.zi(i)) if core.is_sym(i) else i
            c.check('row-by-position', list(r.keys()) == list(cols.keys()) and all(r[k] is cols[k][j] for k in cols))
        elif kind == 'slice':
            lo = c.pick('lo', [None] + list(range(-n - 1, n + 2))); hi = c.pick('hi', [None] + list(range(-n - 1, n + 2))); st = c.pick('step', [None, 1, 2, -1])
            r = d[lo:hi:st]; want = {k: cols[k][lo:hi:st] for k in cols}
            c.check('slice', same_cols(r, want)); basic(c, r, want)
        elif kind == 'mask':
            if m == 0: return
            mask = [c.bool('m%d' % i) for i in range(n)]; keep = [i for i in range(n) if mask[i]]
            r = d[[True if i in keep else False for i in range(n)]] if n else d[[]]
            want = {k: [cols[k][i] for i in keep] for k in cols}
            c.check('bool-mask', same_cols(r, want)); basic(c, r, want)
        elif kind == 'ints':
            if n == 0 or m == 0: return
            k2 = c.choice('nidx', 3); idx = [c.pick('ix%d' % i, list(range(n))) for i in range(k2)]
            r = d[idx]; want = {k: [cols[k][i] for i in idx] for k in cols}
            c.check('int-list', same_cols(r, want)); basic(c, r, want)
        elif kind == 'cols':
            if m < 1: return
            sel = ['b', 'a'] if (m == 2 and c.choice('both', 2)) else ['a']
            r = d[sel]; want = {k: cols[k] for k in sel}
            c.check('column-projection', same_cols(r, want)); basic(c, r, want)
        elif kind == 'tuple':
            if m < 2: return
            r = d['a', 'b']
            c.check('tuple-of-columns-gives-row-tuples', isinstance(r, list) and len(r) == n and all(r[i][0] is cols['a'][i] and r[i][1] is cols['b'][i] for i in range(n)))
        else:
            if m < 1: return
            r = d[lambda a: a]
            c.check('callable-is-applied-per-row', isinstance(r, list) and len(r) == n and all(r[i] is cols['a'][i] for i in range(n)))
        c.check('operand-unchanged', same_cols(d, snap))
    return h

def h_assign(n, m):
    def h(c):
        d, cols = tbl(c, n, m); snap = {k: list(v) for k, v in cols.items()}
        how = c.pick('how', ['setitem', 'setattr', 'update', 'scalar', 'overwrite'])
        L = c.pick('len', list(range(0, n + 3)))
        vals = [c.int('v%d' % i, -9, 9) for i in range(L)]
        key = 'a' if how == 'overwrite' and m else 'c'
        fits = (L == n) or (m == 0) or L == 1 or how == 'scalar'
        try:
            if how == 'setattr': setattr(d, key, list(vals))
            elif how == 'update': d.update({key: list(vals)})
            elif how == 'scalar': d[key] = vals[0] if L else None
            else: d[key] = list(vals)
            raised = False
        except ValueError:
            raised = True
        if how == 'scalar':
            want = dict(snap); want[key] = [vals[0] if L else None] * (n if m else 1)
            c.check('scalar-is-broadcast', not raised and same_cols(d, want)); basic(c, d, want); return
        if not fits:
            c.check('wrong-length-assignment-raises-ValueError', raised)
            c.check('table-unchanged-and-rectangular-after-rejection', same_cols(d, snap) and rect(d))
        else:
            want = dict(snap); want[key] = list(vals) * n if (L == 1 and n != 1 and m) else list(vals)
            if L == 1 and m and n == 0: want[key] = []
            c.check('assignment-accepted', not raised)
            c.check('column-assigned', same_cols(d, want)); basic(c, d, want)
    return h

def h_ops(n, m):
    def h(c):
        from pyg_base import dictable
        d, cols = tbl(c, n, m); snap = {k: list(v) for k, v in cols.items()}
        op = c.pick('op', ['delattr', 'delitem-minus', 'derived', 'relabel', 'do', 'copy'])
        if op == 'delattr':
            if m == 0: return
            r = d.copy(); del r.a
            want = {k: v for k, v in snap.items() if k != 'a'}
            c.check('deleted-column', same_cols(r, want) and rect(r))
        elif op == 'delitem-minus':
            if m == 0: return
            r = d - 'a'; want = {k: v for k, v in snap.items() if k != 'a'}
            c.check('minus-column', same_cols(r, want) and rect(r) and type(r) is dictable)
        elif op == 'derived':
            if m == 0: return
            r = d(c = lambda a: a + 1)
            c.check('derived-column', list(r.keys()) == list(snap.keys()) + ['c'] and all(r[k][i] is snap[k][i] for k in snap for i in range(n)) and X.And([r['c'][i] == snap['a'][i] + 1 for i in range(n)] + [True]))
            basic(c, r, {k: list(r[k]) for k in r.keys()})
        elif op == 'relabel':
            if m == 0: return
            r = d.relabel(a = 'z'); want = {('z' if k == 'a' else k): v for k, v in snap.items()}
            c.check('relabel', same_cols(r, want) and type(r) is dictable); basic(c, r, want)
        elif op == 'do':
            if m == 0: return
            r = d.do(lambda v: v + 1, 'a')
            c.check('do-transforms-one-column', list(r.keys()) == list(snap.keys()) and X.And([r['a'][i] == snap['a'][i] + 1 for i in range(n)] + [True]) and all(r[k][i] is snap[k][i] for k in snap if k != 'a' for i in range(n)))
            c.check('rectangular', rect(r))
        else:
            r = d.copy(); c.check('copy', same_cols(r, snap) and r is not d)
        c.check('operand-unchanged', same_cols(d, snap))
    return h

def h_concat(n, m, n2):
    def h(c):
        from pyg_base import dictable
        d, cols = tbl(c, n, m); snap = {k: list(v) for k, v in cols.items()}
        other = c.pick('other', ['same-cols', 'other-cols', 'record', 'none', 'zero', 'sum'])
        if other in ('none', 'zero'):
            r = d + (None if other == 'none' else 0)
            c.check('plus-none-or-zero-is-the-table', same_cols(r, snap)); c.check('operand-unchanged', same_cols(d, snap)); return
        ecols = {}
        if other == 'same-cols': ecols = {k: [c.int('e.%s%d' % (k, i), -9, 9) for i in range(n2)] for k in snap}
        elif other in ('other-cols', 'sum'): ecols = dict(a = [c.int('e.a%d' % i, -9, 9) for i in range(n2)], z = [c.int('e.z%d' % i, -9, 9) for i in range(n2)])
        else: ecols = dict(a = [c.int('e.a0', -9, 9)], z = [c.int('e.z0', -9, 9)])
        esnap = {k: list(v) for k, v in ecols.items()}
        if other == 'record':
            r = d + {k: v[0] for k, v in ecols.items()}
        elif other == 'sum':
            e = dictable({k: list(v) for k, v in ecols.items()}); r = sum([d, e], dictable())
        else:
            e = dictable({k: list(v) for k, v in ecols.items()}) if ecols else dictable(); r = d + e
        if not ecols and other == 'same-cols':
            c.check('concat-with-empty', same_cols(r, snap, ordered = False)); return
        keys = list(snap.keys()) + [k for k in ecols if k not in snap]
        want = {k: list(snap.get(k, [None] * n)) + list(esnap.get(k, [None] * nrows(esnap))) for k in keys}
        if n == 0 and m == 0: want = {k: list(v) for k, v in esnap.items()}
        c.cover('different-column-sets', set(snap) != set(ecols))
        c.check('concat-appends-rows-in-order-filling-absent-columns-with-None', same_cols(r, want, ordered = False)); c.check('rectangular', rect(r))
        c.check('len-adds-up', len(r) == nrows(want))
        c.check('operands-unchanged', same_cols(d, snap) and (other in ('record',) or same_cols(e, esnap)))
        # two-step: an in-place change of the result must not reach the operands
        if len(r.keys()):
            k0 = list(r.keys())[0]
            r[k0] = [0] * len(r); r['fresh'] = 1
            try: dict.__getitem__(r, k0).append(99)
            except Exception: pass
            c.check('operands-unchanged-after-in-place-change-of-the-result', same_cols(d, snap) and (other in ('record',) or same_cols(e, esnap)))
    return h

def h_alias(n, m):
    """results that may share column lists with the operand (copy, projection, + None, derived column): mutate them in place"""
    def h(c):
        d, cols = tbl(c, n, m); snap = {k: list(v) for k, v in cols.items()}
        if m == 0: return
        from pyg_base import dictable
        VIA = dict(copy = lambda: d.copy(), projection = lambda: d[['a']], call = lambda: d(k = 0), relabel = lambda: d.relabel(a = 'q'), slice = lambda: d[:])
        # operations that have nothing to do (no such column, no renaming, no condition, every row kept) must still return a table of their own
        VIA.update({'minus-absent': lambda: d - 'zz', 'minus-absent-list': lambda: d - ['zz'], 'minus-nothing': lambda: d - [], 'minus-last': lambda: d - list(cols)[-1] if m > 1 else d - 'zz',
                    'and-all': lambda: d & list(cols), 'relabel-nothing': lambda: d.relabel(zz = 'q'), 'relabel-identity': lambda: d.relabel(a = 'a'), 'inc-nothing': lambda: d.inc(), 'exc-nothing': lambda: d.exc(),
                    'inc-all-rows': lambda: d.inc(lambda a: True), 'plus-empty': lambda: d + dictable(), 'mask-all': lambda: d[[True] * n]})
        how = c.pick('via', list(VIA))
        r = VIA[how]()
        c.check('derived-table-is-a-new-object', r is not d)
        if not isinstance(r, dictable) or not len(r.keys()): return
        what = c.pick('change', ['setitem', 'delete', 'update'])
        k0 = list(r.keys())[0]
        if what == 'setitem': r[k0] = [5] * len(r)
        elif what == 'delete': del r[k0]
        else: r.update({k0: [6] * len(r), 'n': 1})
        c.check('operand-unchanged-by-in-place-change-of-a-derived-table', same_cols(d, snap)); c.check('both-rectangular', rect(d) and rect(r))
    return h

def obligations(tier):
    q = tier == 'quick'; N = 2 if q else 3
    obs = []
    shapes = [(n, m) for n in range(N + 1) for m in range(3) if not (m == 0 and n > 0)]
    for n, m in shapes:
        obs.append(Ob('state.%dx%d' % (n, m), h_state(n, m, False), desc = 'a %d x %d table: columns, len, shape, iteration, d[i][c]==d[c][i], get' % (n, m)))
        if n <= 2 and m: obs.append(Ob('state.mixed.%dx%d' % (n, m), h_state(n, m, True), budget_s = 300, desc = 'the same with cells of any kind (None, int, float incl NaN, str, datetime)'))
    for n in range(N + 1):
        for how in ['kw-scalar', 'kw-len1', 'records', 'rows-headers', 'dict']:
            obs.append(Ob('construct.%s.%d' % (how, n), h_construct(n, how), desc = 'construction (%s) of %d rows equals the records' % (how, n)))
    obs.append(Ob('construct.two-lengths', h_two_lengths, desc = 'columns of two different lengths are rejected with ValueError'))
    kinds = ['int', 'slice', 'mask', 'ints', 'cols', 'tuple', 'callable']
    for n, m in shapes:
        for i, k in enumerate(kinds):
            obs.append(Ob('index.%s.%dx%d' % (k, n, m), h_index(n, m), pins = {'kind': i}, budget_s = 300, desc = 'indexing by %s on a %d x %d table' % (k, n, m)))
        for i, how in enumerate(['setitem', 'setattr', 'update', 'scalar', 'overwrite']):
            obs.append(Ob('assign.%s.%dx%d' % (how, n, m), h_assign(n, m), pins = {'how': i}, budget_s = 300,
                          desc = 'column assignment (%s) of every length 0..%d on a %d x %d table: accepted iff it fits, else ValueError and table unchanged' % (how, n + 2, n, m)))
        obs.append(Ob('ops.%dx%d' % (n, m), h_ops(n, m), budget_s = 300, desc = 'delete, minus, derived column, relabel, do, copy on a %d x %d table' % (n, m)))
        obs.append(Ob('alias.%dx%d' % (n, m), h_alias(n, m), budget_s = 300, desc = 'in-place change of a derived table does not reach the operand (%d x %d)' % (n, m)))
        for n2 in range(0, 3):
            obs.append(Ob('concat.%dx%d.+%d' % (n, m, n2), h_concat(n, m, n2), budget_s = 300, desc = 'concatenation of a %d x %d table with %d more rows (same / other columns, record, None, 0, sum)' % (n, m, n2)))
    return obs
