#!/bin/sh
# usage: tools/all_checks.sh [quick|thorough] [ids...]: runs every property's check in turn on /repo as it is and prints one summary line each
TIER="${1:-quick}"; shift 2>/dev/null
IDS="${*:-C01 C02 C03 C04 C05 C06 C07 C08 C09 C10 C11 C12 C13 C14 C15 C16 C17 C18 C19 C20}"
cd "$(dirname "$0")/.."
for p in $IDS; do
  s=$(date +%s); out=$(bin/check $p --tier $TIER 2>&1); rc=$?; e=$(date +%s)
  echo "$p exit=$rc wall=$((e-s))s $(echo "$out" | grep -E "^== $p $TIER:" | cut -c1-200)"
  echo "$out" | grep -E "VIOLATION|KNOWN-FINDING|inconclusive|crashed|GATE FAILED|model-found|HARNESS|vacuous" | cut -c1-300 | head -20
done
