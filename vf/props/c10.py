"""C10 drange enumerates exactly t0, t0+bump, ... up to t1 for every kind of bump."""
import datetime as _rdt
from vf.runner import Ob
from vf.symx import core, shims, ops as X, rrule_stub
from vf.symx.core import US_DAY
from .dates_common import *

FUNCS = ['pyg_base._drange:drange', 'pyg_base._drange:_calendar.date_range', 'pyg_base._dates:dt_bump', 'pyg_base._dates:dt', 'pyg_base._dates:is_bump',
         'pyg_base._dates:is_period']
BOUNDS = dict(t0 = 'every instant of 1900-2300 (midnight for day/business/month units, any second otherwise)',
              span = 'quick: |t1-t0| <= 21 days for day-based bumps (thorough 45), <= 36 hours for hour bumps, <= 5 steps for minute/second bumps, '
                     '<= 4 steps for week bumps and <= 2 for month/quarter/year bumps (thorough 6); either direction; the list length is decided per path by solver forks',
              bump = 'ints n in [-7,7]; timedelta(n days) and intraday timedeltas; single period strings with n in {-5..5} (month-based: day of month <= 28); '
                     'business-day bumps k in {-5..5}; sub-second timedeltas (100 / 300 / 20 / 1 ms, <= 12 steps); compound strings from a fixed list of 13 incl. two of mixed sign (spans up to 8 days / hours, 70 days for the month-based ones; thorough 30 / 130)')
OUTSIDE = ['what the real dateutil.rrule does beyond the validated contract (monthly recurrences from day > 28, byweekday other than a weekday filter)',
           'spans longer than the bounds above', 'timezone-aware endpoints', 't0/t1 given as bumps relative to today']
ASSUMPTIONS = ['dateutil.rrule is replaced by a contract stub (vf/symx/rrule_stub.py) validated against the real rrule on a grid at the start of every run',
               'datetime/timedelta proxies over the Gregorian theory (validated against CPython on every ordinal 1770..2430)',
               'the bump size n is a solver-chosen but per-path concrete value (the product span*n in drange would otherwise be non-linear)']

def setup():
    D = setup_dates()
    import pyg_base._drange as R
    shims.patch(R, datetime = shims.dtmod, int = shims.shim_int, rrule = rrule_stub.make(shims.shim_datetime))
    return R

def _R():
    import pyg_base._drange as R
    return R
def _Dm():
    import pyg_base._dates as D
    return D

def td(c, **kw): return (shims.shim_timedelta if c.mode == 'sym' else _rdt.timedelta)(**kw)

def ends(c, unit_us, maxsteps, midnight = True, offset_us = 0):
    """t0 anywhere; t1 = t0 + span*unit (+ a sub-unit offset, which must not change the list)"""
    t0 = c.day('t0') if midnight else c.datetime('t0', us_step = 10**6)
    span = c.int('span', -maxsteps, maxsteps)
    extra = c.int('extra', 0, offset_us) if offset_us else 0
    sgn = X.If(span < 0, -1, 1)
    t1 = t0 + td(c, microseconds = span * unit_us + sgn * extra)
    return t0, t1, span

def check_list(c, res, t0, t1, step, first = None):
    """res is the strictly monotone list first, step(first), ... staying within [t0,t1] / [t1,t0]; the next one is outside"""
    c.check('non-empty', len(res) >= 1)
    c.check('starts-at-t0', key(res[0]) == key(t0 if first is None else first))
    fwd = key(t1) >= key(t0)
    c.check('each-element-is-previous-plus-bump', X.And([key(b) == key(step(a)) for a, b in zip(res[:-1], res[1:])] + [True]))
    c.check('strictly-monotone', X.And([X.If(fwd, key(a) < key(b), key(a) > key(b)) for a, b in zip(res[:-1], res[1:])] + [True]))
    c.check('within-endpoints', X.And([X.If(fwd, X.And(key(a) >= key(t0), key(a) <= key(t1)), X.And(key(a) <= key(t0), key(a) >= key(t1))) for a in res]))
    nxt = step(res[-1])
    c.check('stops-only-when-next-is-beyond-t1', X.If(fwd, key(nxt) > key(t1), key(nxt) < key(t1)))

def same_lists(c, label, a, b):
    c.check(label, len(a) == len(b) and all([key(x) == key(y) for x, y in zip(a, b)]) if len(a) == len(b) else False)

def expect_valueerror(c, label, f):
    try:
        r = f()
    except ValueError:
        return True
    c.fail(label)

NS = [-7, -3, -2, -1, 1, 2, 3, 7]
HOURS = [36]

def h_int(maxspan):
    def h(c):
        R = _R(); t0, t1, span = ends(c, US_DAY, maxspan)
        n = c.pick('n', NS)
        c.cover('backwards', span < 0); c.cover('span-not-multiple', X.And(span > 2, span % 3 == 1))
        if span == 0:
            same_lists(c, 'equal-endpoints-give-[t0]', R.drange(t0, t1, n), [t0]); return
        if (span > 0) != (n > 0):
            expect_valueerror(c, 'bump-pointing-away-raises-ValueError', lambda: R.drange(t0, t1, n)); return
        res = R.drange(t0, t1, n)
        check_list(c, res, t0, t1, lambda t: t + td(c, days = n))
        same_lists(c, 'int-n-equals-timedelta-n', res, R.drange(t0, t1, td(c, days = n)))
        same_lists(c, 'int-n-equals-nd', res, R.drange(t0, t1, '%dd' % n))
    return h

def h_timedelta(c):
    R = _R(); t0, t1, span = ends(c, 3600 * 10**6, HOURS[0], midnight = False, offset_us = 3599 * 10**6)
    hrs = c.pick('hours', [-25, -6, -1, 1, 5, 24, 36]); mins = c.pick('mins', [0, 30])
    bump = td(c, hours = hrs, minutes = mins if hrs > 0 else -mins)
    c.cover('backwards', span < 0)
    if key(t0) == key(t1):
        same_lists(c, 'equal-endpoints-give-[t0]', R.drange(t0, t1, bump), [t0]); return
    if (key(t1) > key(t0)) != (hrs > 0):
        expect_valueerror(c, 'bump-pointing-away-raises-ValueError', lambda: R.drange(t0, t1, bump)); return
    res = R.drange(t0, t1, bump)
    check_list(c, res, t0, t1, lambda t: t + bump)

def h_timedelta_ms(c):
    """sub-second timedelta bumps (the statement's intraday timedeltas): every step count up to 12 has a cover witness that is replayed on the real code, where
    the arithmetic is binary floating point / integer microseconds rather than the exact reals of the symbolic run"""
    R = _R(); ms = c.pick('ms', [100, 300, 20, 1])
    t0 = c.datetime('t0', us_step = 10**6); span = c.int('span', -12, 12)
    t1 = t0 + td(c, microseconds = span * ms * 1000)
    for k in range(1, 13): c.cover('exactly-%d-steps' % k, span == k)
    bump = td(c, milliseconds = ms)
    if span == 0:
        same_lists(c, 'equal-endpoints-give-[t0]', R.drange(t0, t1, bump), [t0]); return
    if span < 0:
        expect_valueerror(c, 'bump-pointing-away-raises-ValueError', lambda: R.drange(t0, t1, bump)); return
    res = R.drange(t0, t1, bump)
    check_list(c, res, t0, t1, lambda t: t + bump)
    c.check('endpoint-that-is-a-whole-number-of-steps-away-is-the-last-element', len(res) == span + 1)

UNIT_US = dict(d = US_DAY, w = 7 * US_DAY, h = 3600 * 10**6, n = 60 * 10**6, s = 10**6)
def h_period(unit, maxsteps):
    monthly = unit in 'mqy'
    def h(c):
        R = _R(); D = _Dm()
        n = c.pick('n', [-5, -2, -1, 1, 2, 3])
        if monthly:
            t0 = c.ymd('t0'); c.assume(t0.day <= 28); t1 = c.ymd('t1')
            mult = dict(m = 1, q = 3, y = 12)[unit]
            months = 12 * (t1.year - t0.year) + (t1.month - t0.month)
            c.assume(X.And(months >= -maxsteps * mult, months <= maxsteps * mult))
            span = X.ordinal(t1) - X.ordinal(t0)
        elif unit in 'dw':
            t0, t1, span = ends(c, US_DAY, maxsteps * (7 if unit == 'w' else 1))
        else:
            t0, t1, span = ends(c, UNIT_US[unit], maxsteps, midnight = False, offset_us = UNIT_US[unit] - 10**6 if unit != 's' else 0)
        bump = '%d%s' % (n, unit)
        c.cover('backwards', span < 0); c.cover('forwards-several', span > 3)
        if key(t0) == key(t1):
            same_lists(c, 'equal-endpoints-give-[t0]', R.drange(t0, t1, bump), [t0]); return
        if (key(t1) > key(t0)) != (n > 0):
            expect_valueerror(c, 'bump-pointing-away-raises-ValueError', lambda: R.drange(t0, t1, bump)); return
        res = R.drange(t0, t1, bump)
        check_list(c, res, t0, t1, lambda t: D.dt_bump(t, bump))
    return h

def h_bday(maxspan):
    def h(c):
        R = _R(); t0, t1, span = ends(c, US_DAY, maxspan)
        k = c.pick('k', [-5, -2, -1, 1, 2, 3])
        bump = '%db' % k
        c.cover('weekend-start', t0.weekday() > 4); c.cover('backwards', span < 0); c.cover('weekend-end', t1.weekday() > 4)
        if span == 0:
            same_lists(c, 'equal-endpoints-give-[t0]', R.drange(t0, t1, bump), [t0]); return
        if (span > 0) != (k > 0):
            expect_valueerror(c, 'bump-pointing-away-raises-ValueError', lambda: R.drange(t0, t1, bump)); return
        res = R.drange(t0, t1, bump)
        o0, o1 = X.ordinal(t0), X.ordinal(t1)
        lo, hi = X.Min(o0, o1), X.Max(o0, o1)
        nwd = wdcount(hi) - wdcount(lo - 1)               # weekdays in [lo, hi]
        c.check('length-is-every-kth-weekday', len(res) == (nwd + abs(k) - 1) // abs(k))
        c.check('weekdays-only-at-midnight-within-endpoints', X.And([X.And(a.weekday() < 5, X.us_of_day(a) == 0, X.ordinal(a) >= lo, X.ordinal(a) <= hi) for a in res] + [True]))
        if res:
            if k > 0: c.check('first-is-first-weekday-on-or-after-t0', wdcount(X.ordinal(res[0]) - 1) == wdcount(o0 - 1))
            else: c.check('first-is-last-weekday-on-or-before-t0', wdcount(X.ordinal(res[0])) == wdcount(o0))
        c.check('steps-of-k-weekdays', X.And([wdcount(X.ordinal(b)) - wdcount(X.ordinal(a)) == k for a, b in zip(res[:-1], res[1:])] + [True]))
    return h

COMPOUNDS = ['1w1d', '1d1b', '1b1d', '1m1d', '2d-1d', '-1w-1b', '1y-1m', '-1m-1d', '1b1b', '1h30n', '-1d-12h', '-1d1w', '1d-1w']
NET_FORWARD = {'-1d1w': True, '1d-1w': False}          # mixed-sign compounds whose first part points the other way than the whole bump
def h_compound(bump, maxspan):
    def h(c):
        R = _R(); D = _Dm()
        mid = not any(u in bump for u in 'hns')
        t0 = c.ymd('t0') if mid else c.datetime('t0', us_step = 10**6)
        if any(u in bump for u in 'mqy'): c.assume(t0.day <= 28)
        span = c.int('span', -maxspan, maxspan)
        t1 = t0 + (td(c, days = span) if mid else td(c, hours = span))
        fwd = NET_FORWARD.get(bump, not bump.startswith('-'))
        c.cover('several', X.If(fwd, span > 3, span < -3))
        if span == 0:
            same_lists(c, 'equal-endpoints-give-[t0]', R.drange(t0, t1, bump), [t0]); return
        if (span > 0) != fwd:
            expect_valueerror(c, 'bump-pointing-away-raises-ValueError', lambda: R.drange(t0, t1, bump)); return
        res = R.drange(t0, t1, bump)
        check_list(c, res, t0, t1, lambda t: D.dt_bump(t, bump))
    return h

def h_zero(c):
    R = _R(); t0, t1, span = ends(c, US_DAY, 10)
    c.assume(span != 0)
    which = c.pick('which', ['int', 'timedelta', '0d', '0h', '0m', '0w'])
    bump = 0 if which == 'int' else td(c, days = 0) if which == 'timedelta' else which
    expect_valueerror(c, 'zero-bump-raises-ValueError-instead-of-an-unbounded-list', lambda: R.drange(t0, t1, bump))

def obligations(tier):
    q = tier == 'quick'; HOURS[0] = 12 if q else 36
    S = setup; day = 21 if q else 45
    obs = [Ob('gate.gregorian-theory', theory_gate, engine = 'gate', desc = 'Gregorian theory vs CPython date'),
           Ob('gate.rrule-contract', rrule_stub.gate, engine = 'gate', desc = 'rrule contract stub vs the real dateutil.rrule on a grid')]
    for i, n in enumerate(NS):
        obs.append(Ob('int.%d' % n, h_int(day), setup = S, pins = {'n': i}, budget_s = 300 if q else 1200, fuel = 6000, desc = 'drange(t0,t1,%d) == drange(timedelta) == drange("%dd"), any span <= %d days' % (n, n, day)))
    for i, hrs in enumerate([-25, -6, -1, 1, 5, 24, 36]):
        obs.append(Ob('timedelta.%dh' % hrs, h_timedelta, setup = S, pins = {'hours': i}, budget_s = 300, fuel = 6000, desc = 'intraday timedelta bumps of %d hours (+0/30 min)' % hrs))
    for i, ms in enumerate([100, 300, 20, 1]):
        obs.append(Ob('timedelta.%dms' % ms, h_timedelta_ms, setup = S, pins = {'ms': i}, budget_s = 300, fuel = 6000, desc = 'sub-second timedelta bumps of %d ms, 0..12 steps, each step count replayed on the real code' % ms))
    for u in 'dwhnsmqy':
        steps = (day if u == 'd' else ((2 if u in 'mqy' else 4) if q else 6)) if u in 'dwmqy' else ((12 if q else 36) if u == 'h' else 6)
        for i, n in enumerate([-5, -2, -1, 1, 2, 3]):
            obs.append(Ob('period.%s.%d' % (u, n), h_period(u, steps), setup = S, pins = {'n': i}, budget_s = 300 if q else 1200, fuel = 6000,
                          desc = "drange(t0,t1,'%d%s') == iterated dt_bump" % (n, u)))
    for i, k in enumerate([-5, -2, -1, 1, 2, 3]):
        obs.append(Ob('bday.%d' % k, h_bday(day), setup = S, pins = {'k': i}, budget_s = 300 if q else 1200, fuel = 6000, desc = "drange(t0,t1,'%db') lists every %d-th weekday between the endpoints" % (k, abs(k))))
    for b in COMPOUNDS:
        span = (70 if q else 130) if ('m' in b and 'y' not in b) else (8 if q else 30)         # month-based compounds need a span of several (unequal) months to take more than one step
        obs.append(Ob('compound.' + b, h_compound(b, span), setup = S, budget_s = 300 if q else 1200, fuel = 6000, desc = "compound bump '%s' == iterated dt_bump (|t1-t0| <= %d %s)" % (b, span, 'hours' if any(u in b for u in 'hns') else 'days')))
    obs.append(Ob('zero-bump', h_zero, setup = S, desc = 'zero bumps raise ValueError'))
    return obs
