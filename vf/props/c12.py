"""C12 df_fillna/nona fill or drop exactly the missing cells, arrays and pandas alike."""
import datetime as _rdt
from vf.runner import Ob
from vf import minipd
from vf.symx import core, shims, ops as X
from .pandas_common import *
from . import values as V

FUNCS = ['pyg_base._pandas:_df_fillna', 'pyg_base._pandas:df_fillna', 'pyg_base._pandas:_nona', 'pyg_base._pandas:nona', 'pyg_base._types:is_series', 'pyg_base._types:is_arr']
BOUNDS = dict(frames = 'two-column frames and 2-d arrays of 0..2 rows (thorough 3), same methods', vectors = 'float Series and 1-d arrays of length 0..4 (thorough 5): which cells are NaN and the values of the others are symbolic (so leading, trailing, interior runs, all-NaN are solver cases); +-inf among the values for nona / fnna / ffill / ffill_na on up to 2 cells (thorough 3)',
              methods = 'ffill, bfill, a symbolic numeric constant, nona, fnna, ffill_na, ffill_0 and every ordered pair of them', limit = '{None, 1, 2} for ffill / bfill')
OUTSIDE = ['frames with more than two columns, axis = 1', 'interpolation methods', 'limit with a numeric method (pandas fills the first `limit` NaNs; the statement is silent)', 'vectors longer than 5']
ASSUMPTIONS = ['pandas replaced by the minipd model (ffill/bfill/fillna with limit, last_valid_index, masks, label slices), validated against the real pandas on all NaN patterns of length <= 3 x limits each run',
               'arrays are modelled by a list-backed stand-in for ndarray; floats are extended reals']

def vec(c, n, inf = False):
    ts = sorted_stamps(c, 't', n, gap_days = 3)
    vs = [(c.float('v%d' % i, allow = (core.FIN, core.NAN, core.PINF, core.NINF), halves = 40) if inf else value(c, 'v%d' % i)) for i in range(n)]
    return ts, vs

def isn(v): return V.is_nan(v)

def apply(m, cells, limit, const):
    """oracle on a list of (stamp, value): returns the new list"""
    n = len(cells)
    if m in ('ffill', 'bfill'):
        out = []
        idx = range(n) if m == 'ffill' else range(n - 1, -1, -1)
        last = None; run = 0; tmp = {}
        for i in idx:
            t, v = cells[i]
            if isn(v):
                run += 1
                tmp[i] = (t, last if (last is not None and (limit is None or run <= limit)) else v)
            else:
                last = v; run = 0; tmp[i] = (t, v)
        return [tmp[i] for i in range(n)]
    if m == 'const': return [(t, const if isn(v) else v) for t, v in cells]
    if m == 'nona': return [(t, v) for t, v in cells if not isn(v)]
    if m == 'fnna':
        k = 0
        while k < n and isn(cells[k][1]): k += 1
        return cells[k:]
    if m in ('ffill_na', 'ffill_0'):
        lastvalid = None
        for i, (t, v) in enumerate(cells):
            if not isn(v): lastvalid = i
        if lastvalid is None: return list(cells)
        filled = apply('ffill', cells, limit, const)
        return [(t, v) if i <= lastvalid else (t, float('nan') if m == 'ffill_na' else 0.0) for i, (t, v) in enumerate(filled)]
    raise ValueError(m)

METHODS = ['ffill', 'bfill', 'const', 'nona', 'fnna', 'ffill_na', 'ffill_0']
def h_fill(n, methods, limit, array, inf = False):
    def h(c):
        Pm = P()
        ts, vs = vec(c, n, inf); const = c.float('const', allow = (core.FIN,), halves = 40)
        if n: c.cover('a-nan', X.Or([isn(v) for v in vs])); c.cover('a-value', X.Or([X.Not(isn(v)) for v in vs]))
        arg_methods = [const if m == 'const' else m for m in methods]
        if array:
            src = (minipd.Arr(vs) if c.mode == 'sym' else __import__('numpy').array([float(v) for v in vs], dtype = float))
        else:
            src = mkseries(c, vs, ts)
        snap = list(vs)
        r = Pm.df_fillna(src, arg_methods if len(arg_methods) > 1 else arg_methods[0], limit = limit)
        cells = list(zip(ts, vs))
        for m in methods: cells = apply(m, cells, limit, const)
        if array:
            got = list(r); c.check('array-result-equals-the-values-of-the-Series-result', len(got) == len(cells) and all(feq(g, w[1]) for g, w in zip(got, cells)))
            c.check('input-not-modified', len(src) == n and all(feq(a, b) for a, b in zip(list(src), snap)))
        else:
            got = rows(r)
            c.check('fills-or-drops-exactly-the-missing-cells', len(got) == len(cells) and all(g[0] == w[0] and feq(g[1], w[1]) for g, w in zip(got, cells)))
            c.check('input-not-modified', len(rows(src)) == n and all(feq(a[1], b) for a, b in zip(rows(src), snap)))
    return h

def h_nona(n, array, inf = False):
    def h(c):
        Pm = P()
        ts, vs = vec(c, n, inf)
        if inf and n: c.cover('an-infinite-cell', X.Or([minipd._isinf(v) for v in vs]))
        src = (minipd.Arr(vs) if c.mode == 'sym' else __import__('numpy').array([float(v) for v in vs], dtype = float)) if array else mkseries(c, vs, ts)
        r = Pm.nona(src)
        want = [(t, v) for t, v in zip(ts, vs) if not isn(v)]
        got = [(None, g) for g in r] if array else rows(r)
        c.check('nona-removes-exactly-the-nan-rows', len(got) == len(want) and all((array or g[0] == w[0]) and feq(g[1], w[1]) for g, w in zip(got, want)))
    return h

def h_nona2d(n):
    """nona(frame) drops exactly the rows that are NaN in every column (cells incl. +-inf)"""
    def h(c):
        Pm = P()
        ts = sorted_stamps(c, 't', n, gap_days = 3)
        cols = {k: [c.float('%s%d' % (k, i), allow = (core.FIN, core.NAN, core.PINF, core.NINF), halves = 40) for i in range(n)] for k in 'ab'}
        if n: c.cover('a-row-with-both-infinities', X.Or([X.And(cols['a'][i] > 0, minipd._isinf(cols['a'][i]), cols['b'][i] < 0, minipd._isinf(cols['b'][i])) for i in range(n)]))
        r = Pm.nona(mkframe(c, cols, ts))
        want = [(ts[i], (cols['a'][i], cols['b'][i])) for i in range(n) if not X.And(isn(cols['a'][i]), isn(cols['b'][i]))]
        got, names = frame_rows(r)
        c.check('nona-removes-exactly-the-all-nan-rows', list(names) == ['a', 'b'] and len(got) == len(want) and all(g[0] == w[0] and feq(g[1][0], w[1][0]) and feq(g[1][1], w[1][1]) for g, w in zip(got, want)))
    return h

def mkframe(c, cols, labels):
    if c.mode == 'sym': return minipd.DataFrame({k: list(v) for k, v in cols.items()}, index = list(labels))
    import pandas as rpd
    return rpd.DataFrame({k: [float(x) for x in v] for k, v in cols.items()}, index = rpd.DatetimeIndex(list(labels)), dtype = float)
def frame_rows(f):
    """[(label, (cells...))] of a minipd or real frame"""
    if isinstance(f, minipd.DataFrame): return [(t, tuple(f._c[c][i] for c in f._cols)) for i, t in enumerate(f._i._l)], list(f._cols)
    return [(t.to_pydatetime(), tuple(float(x) for x in row)) for t, row in zip(f.index, f.values)], list(f.columns)

def h_fill2d(n, methods, limit, array, inf = False):
    """two-column frames (and 2-d arrays): every fill acts column by column; nona / fnna look at whole rows"""
    def h(c):
        Pm = P()
        ts = sorted_stamps(c, 't', n, gap_days = 3)
        val = (lambda nm: c.float(nm, allow = (core.FIN, core.NAN, core.PINF, core.NINF), halves = 40)) if inf else (lambda nm: value(c, nm))
        cols = dict(a = [val('a%d' % i) for i in range(n)], b = [val('b%d' % i) for i in range(n)])
        if inf and n: c.cover('a-row-with-both-infinities', X.Or([X.And(cols['a'][i] > 0, minipd._isinf(cols['a'][i]), cols['b'][i] < 0, minipd._isinf(cols['b'][i])) for i in range(n)]))
        const = c.float('const', allow = (core.FIN,), halves = 40)
        arg_methods = [const if m == 'const' else m for m in methods]
        if n: c.cover('columns-end-on-different-rows', X.And(isn(cols['a'][-1]), X.Not(isn(cols['b'][-1]))))
        if array: src = minipd.Arr2([[cols['a'][i], cols['b'][i]] for i in range(n)], 2) if c.mode == 'sym' else __import__('numpy').array([[float(cols['a'][i]), float(cols['b'][i])] for i in range(n)], dtype = float).reshape(n, 2)
        else: src = mkframe(c, cols, ts)
        r = Pm.df_fillna(src, arg_methods if len(arg_methods) > 1 else arg_methods[0], limit = limit)
        # oracle: column-wise for the fills; row-wise for nona / fnna
        cells = {k: list(zip(ts, v)) for k, v in cols.items()}; keep = list(range(n))
        for m in methods:
            if m in ('nona', 'fnna'):
                alln = [X.And([isn(cells[k][p][1]) for k in cells]) for p in range(len(keep))]
                if m == 'nona': sel = [p for p in range(len(keep)) if not alln[p]]
                else:
                    q = 0
                    while q < len(keep) and alln[q]: q += 1
                    sel = list(range(q, len(keep)))
                cells = {k: [v[p] for p in sel] for k, v in cells.items()}; keep = [keep[p] for p in sel]
            else:
                cells = {k: apply(m, v, limit, const) for k, v in cells.items()}
        want = [(ts[i], (cells['a'][p][1], cells['b'][p][1])) for p, i in enumerate(keep)]
        if array:
            got = [(None, tuple(row)) for row in (r._r if isinstance(r, minipd.Arr2) else r.tolist())]
        else:
            got, names = frame_rows(r); c.check('columns-kept', names == ['a', 'b'])
        c.check('fills-or-drops-exactly-the-missing-cells-2d', len(got) == len(want) and all((array or g[0] == w[0]) and feq(g[1][0], w[1][0]) and feq(g[1][1], w[1][1]) for g, w in zip(got, want)))
    return h

def obligations(tier):
    q = tier == 'quick'; N = 4 if q else 5
    S = setup_pandas
    obs = [Ob('gate.minipd-vs-pandas', minipd.gate, engine = 'gate', desc = 'the pandas model equals the real pandas on an exhaustive small grid')]
    for n in range(0, N + 1):
        for m in METHODS:
            for limit in ((None, 1, 2) if m in ('ffill', 'bfill', 'ffill_na', 'ffill_0') else (None,)):
                if q and n > 3 and limit == 2: continue
                obs.append(Ob('fill.%s.limit-%s.%d' % (m, limit, n), h_fill(n, [m], limit, False), setup = S, budget_s = 300 if n < 5 else 1500, desc = 'df_fillna(Series of %d, %s, limit=%s)' % (n, m, limit)))
            if n <= 3 or not q: obs.append(Ob('array.%s.%d' % (m, n), h_fill(n, [m], None, True), setup = S, budget_s = 300, desc = 'df_fillna(1-d array of %d, %s) == values of the Series result, input unchanged' % (n, m)))
        obs.append(Ob('nona.series.%d' % n, h_nona(n, False), setup = S, desc = 'nona(Series of %d)' % n)); obs.append(Ob('nona.array.%d' % n, h_nona(n, True), setup = S, desc = 'nona(array of %d)' % n))
    for n in range(1, 3 if q else 4):                    # +-inf is a value, not a missing cell
        for m in ('nona', 'fnna', 'ffill', 'ffill_na'):
            for arr in (False, True): obs.append(Ob('inf.%s.%s.%d' % ('array' if arr else 'series', m, n), h_fill(n, [m], None, arr, True), setup = S, budget_s = 300, desc = 'df_fillna(%s of %d cells incl. +-inf, %s): infinite cells are values, not missing' % ('array' if arr else 'Series', n, m)))
        for arr in (False, True): obs.append(Ob('inf.nona-function.%s.%d' % ('array' if arr else 'series', n), h_nona(n, arr, True), setup = S, budget_s = 300, desc = 'nona(%s of %d cells incl. +-inf)' % ('array' if arr else 'Series', n)))
        if n <= 2: obs.append(Ob('inf.frame.nona.%d' % n, h_fill2d(n, ['nona'], None, False, True), setup = S, budget_s = 300, desc = 'df_fillna(two-column frame of %d rows incl. +-inf, nona): a row holding +inf and -inf is not a missing row' % n))
        if n <= 2: obs.append(Ob('inf.frame.nona-function.%d' % n, h_nona2d(n), setup = S, budget_s = 300, desc = 'nona(two-column frame of %d rows incl. +-inf)' % n))
    for n in range(0, 3 if q else 4):
        for m in METHODS:
            for limit in ((None, 1) if m in ('ffill', 'bfill') else (None,)):
                obs.append(Ob('frame.%s.limit-%s.%d' % (m, limit, n), h_fill2d(n, [m], limit, False), setup = S, budget_s = 300 if q else 1500, desc = 'df_fillna(two-column frame of %d rows, %s, limit=%s)' % (n, m, limit)))
            if m in ('ffill', 'nona', 'ffill_na', 'const'): obs.append(Ob('array2d.%s.%d' % (m, n), h_fill2d(n, [m], None, True), setup = S, budget_s = 300 if q else 1500, desc = 'df_fillna(2-d array of %d rows, %s) == values of the frame result' % (n, m)))
    for pair in [('ffill', 'nona'), ('bfill', 'fnna'), ('const', 'nona'), ('ffill_na', 'const')]:
        obs.append(Ob('frame.sequence.%s+%s' % pair, h_fill2d(2 if q else 3, list(pair), None, False), setup = S, budget_s = 300 if q else 1500, desc = 'method list %s on a two-column frame' % (list(pair),)))
    for m1 in METHODS:
        for m2 in METHODS:
            if m1 == m2: continue
            for n in ((3,) if q else (3, 4)):
                obs.append(Ob('sequence.%s+%s.%d' % (m1, m2, n), h_fill(n, [m1, m2], None, False), setup = S, budget_s = 300, desc = 'method list [%s, %s] applies the methods in sequence (%d rows)' % (m1, m2, n)))
    return obs
