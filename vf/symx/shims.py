"""proxy-aware replacements for builtins / stdlib names, injected into the *module globals* of the real code.
Each falls through to the real thing for concrete arguments (identity on concrete values)."""
import z3, builtins, types, math, datetime as _rdt
from . import core
from .core import (SymInt, SymBool, SymFloat, SymDatetime, SymTimedelta, SymTime, LazyField, Unsupported, zi, zb, mkbool, mkint,
                   valid, dfc, US_DAY, tofloat, is_sym)

# ---- datetime module shim
class _DTMeta(type):
    def __instancecheck__(cls, x): return isinstance(x, _rdt.datetime)
    def __subclasscheck__(cls, x): return issubclass(x, _rdt.datetime)
class shim_datetime(metaclass = _DTMeta):
    min = _rdt.datetime.min; max = _rdt.datetime.max
    def __new__(cls, y, m = None, d = None, hh = 0, mm = 0, ss = 0, us = 0, tzinfo = None):
        parts = (y, m, d, hh, mm, ss, us)
        if not any(isinstance(a, (SymInt, SymBool)) for a in parts):
            return _rdt.datetime(y, m, d, hh, mm, ss, us, tzinfo = tzinfo)
        if tzinfo is not None: raise Unsupported('tz-aware symbolic datetime')
        tod = ((zi(hh) * 60 + zi(mm)) * 60 + zi(ss)) * 10**6 + zi(us)
        if isinstance(y, LazyField) and isinstance(m, LazyField) and isinstance(d, LazyField) \
           and y.t is m.t is d.t and (y.idx, m.idx, d.idx) == (0, 1, 2):
            return SymDatetime(y.t.o, z3.simplify(tod))        # same civil day: no constraints needed
        zy, zm, zd = zi(y), zi(m), zi(d)
        c = core.CUR
        if not c.branch(z3.And(zm >= 1, zm <= 12)): raise ValueError('month must be in 1..12')
        if not c.branch(z3.And(zy >= 1, zy <= 9999)): raise ValueError('year is out of range')
        if not c.branch(valid(zy, zm, zd)): raise ValueError('day is out of range for month')
        t = SymDatetime(dfc(zy, zm, zd), z3.simplify(tod)); t._ymd = (zy, zm, zd)
        core.register_civil(c, t._ymd, t.o)
        return t
    now = staticmethod(lambda *a: _clock('now'))
    utcnow = staticmethod(lambda *a: _clock('now'))
    today = staticmethod(lambda *a: _clock('now'))
    @staticmethod
    def fromordinal(o):
        if isinstance(o, SymInt): return SymDatetime(o.e)
        return _rdt.datetime.fromordinal(o)
    @staticmethod
    def utcfromtimestamp(x):
        if is_sym(x): raise Unsupported('utcfromtimestamp of symbolic value')
        return _rdt.datetime.utcfromtimestamp(x)
    strptime = staticmethod(_rdt.datetime.strptime)
    combine = staticmethod(_rdt.datetime.combine)
    fromisoformat = staticmethod(_rdt.datetime.fromisoformat)

CLOCK = {}
def _clock(name):
    """the clock stub: datetime.now() is whatever the harness installed (symbolic instant), else the real clock"""
    if 'now' in CLOCK: return CLOCK['now']
    return _rdt.datetime.now()

class _DMeta(type):
    def __instancecheck__(cls, x): return isinstance(x, _rdt.date)
    def __subclasscheck__(cls, x): return issubclass(x, _rdt.date)
class shim_date(metaclass = _DMeta):
    def __new__(cls, y, m, d):
        if not any(isinstance(a, (SymInt, SymBool)) for a in (y, m, d)): return _rdt.date(y, m, d)
        t = shim_datetime(y, m, d); t.isdate = True; return t
    today = staticmethod(_rdt.date.today)
    fromordinal = staticmethod(_rdt.date.fromordinal)

class _TDMeta(type):
    def __instancecheck__(cls, x): return isinstance(x, _rdt.timedelta)
class shim_timedelta(metaclass = _TDMeta):
    def __new__(cls, days = 0, seconds = 0, microseconds = 0, milliseconds = 0, minutes = 0, hours = 0, weeks = 0):
        args = (days, seconds, microseconds, milliseconds, minutes, hours, weeks)
        if not any(is_sym(a) for a in args): return _rdt.timedelta(*args)
        if any(isinstance(a, SymFloat) for a in args): raise Unsupported('timedelta of symbolic float')
        if any(builtins.type(a) is float for a in args): raise Unsupported('timedelta mixing float and symbolic')
        d, s, us, ms, mi, h, w = [zi(a) for a in args]
        return SymTimedelta(z3.simplify((((w * 7 + d) * 24 + h) * 60 + mi) * 60 * 10**6 + s * 10**6 + ms * 1000 + us))

class _TMeta(type):
    def __instancecheck__(cls, x): return isinstance(x, _rdt.time)
class shim_time(metaclass = _TMeta):
    def __new__(cls, hour = 0, minute = 0, second = 0, microsecond = 0, tzinfo = None):
        a = (hour, minute, second, microsecond)
        if not any(is_sym(x) for x in a): return _rdt.time(hour, minute, second, microsecond, tzinfo = tzinfo)
        return SymTime(z3.simplify(((zi(hour) * 60 + zi(minute)) * 60 + zi(second)) * 10**6 + zi(microsecond)))

dtmod = types.ModuleType('datetime')       # what `import datetime` resolves to inside the code under test
dtmod.datetime = shim_datetime; dtmod.timedelta = shim_timedelta; dtmod.date = shim_date; dtmod.time = shim_time
dtmod.timezone = _rdt.timezone; dtmod.tzinfo = _rdt.tzinfo; dtmod.MINYEAR = _rdt.MINYEAR; dtmod.MAXYEAR = _rdt.MAXYEAR

# ---- int(): template strings stand for symbolic ints
TEMPLATES = {}          # digit string -> SymInt
def template(n):
    """a digit string that the real tokenizer treats like any number; int() of it gives the symbolic n back"""
    s = '9%05d7' % (len(TEMPLATES) + 1)
    TEMPLATES[s] = n
    return s
class _IntMeta(type):
    def __instancecheck__(cls, x): return isinstance(x, builtins.int)
    def __subclasscheck__(cls, x): return issubclass(x, builtins.int)
class shim_int(metaclass = _IntMeta):
    def __new__(cls, x = 0, *a):
        from .symstr import SymStr
        if isinstance(x, SymStr): return x.as_int()
        if isinstance(x, str):
            s = x.strip(); neg = s.startswith('-'); k = s.lstrip('+-')
            if k in TEMPLATES:
                n = TEMPLATES[k]
                return -n if neg else n
        if isinstance(x, (SymInt, SymBool)): return x if isinstance(x, SymInt) else x._i()
        if isinstance(x, SymFloat):
            c = core.CUR
            if c.branch(x.kind != 0): raise ValueError('cannot convert float NaN/inf to integer')
            # truncation toward zero
            fl = z3.ToInt(x.val)
            return mkint(z3.If(x.val >= 0, fl, z3.If(z3.ToReal(fl) == x.val, fl, fl + 1)))
        return builtins.int(x, *a)

class _FloatMeta(type):
    def __instancecheck__(cls, x): return isinstance(x, builtins.float)
    def __subclasscheck__(cls, x): return issubclass(x, builtins.float)
class shim_float(metaclass = _FloatMeta):
    def __new__(cls, x = 0.0):
        if isinstance(x, (SymInt, SymFloat, SymBool)): return tofloat(x)
        return builtins.float(x)

class _BoolMeta(type):
    def __instancecheck__(cls, x): return isinstance(x, builtins.bool)
class shim_bool(metaclass = _BoolMeta):
    def __new__(cls, x = False):
        if isinstance(x, SymBool): return x
        if is_sym(x): return mkbool(zb(x))
        return builtins.bool(x)

def shim_type(x, *a):
    if a: return builtins.type(x, *a)
    if is_sym(x) or isinstance(x, SymTime): return x.__class__
    return builtins.type(x)

def shim_abs(x): return builtins.abs(x)
def shim_min(*a, **k):
    if len(a) == 2 and not k and any(is_sym(x) for x in a):
        return a[1] if a[1] < a[0] else a[0]
    return builtins.min(*a, **k)
def shim_max(*a, **k):
    if len(a) == 2 and not k and any(is_sym(x) for x in a):
        return a[1] if a[1] > a[0] else a[0]
    return builtins.max(*a, **k)

# ---- numpy scalar predicates
class NP:
    """module proxy: numpy with isnan/isinf that understand proxies (and plain python scalars)"""
    def __init__(self):
        import numpy
        object.__setattr__(self, '_np', numpy)
    def __getattr__(self, k): return getattr(self._np, k)
    def isnan(self, x):
        if isinstance(x, SymFloat): return mkbool(x.kind == core.NAN)
        if isinstance(x, (SymInt, SymBool)): return False
        return self._np.isnan(x)
    def isinf(self, x):
        if isinstance(x, SymFloat): return mkbool(z3.Or(x.kind == core.PINF, x.kind == core.NINF))
        if isinstance(x, (SymInt, SymBool)): return False
        return self._np.isinf(x)

def patch(mod, **names):
    for k, v in names.items(): setattr(mod, k, v)

def reset():
    TEMPLATES.clear(); CLOCK.clear()
