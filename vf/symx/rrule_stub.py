"""contract stub for dateutil.rrule.rrule, restricted to the argument patterns pyg_base._drange uses.
dateutil's rrule is ~1700 lines of pure python iterating calendar tables; far too large to run on proxies.
The contract (validated against the real rrule on a grid at the start of every run, see gate()):
  rrule(freq, interval=k>0, dtstart=a, until=b[, byweekday=ws]) yields a, a+k*unit, a+2k*unit, ... while <= b
  (those whose weekday is in ws when given); nothing when a > b.  unit: DAILY 1 day, WEEKLY 7 days, HOURLY/MINUTELY/SECONDLY,
  MONTHLY/YEARLY k months / years keeping the day of month -- only claimed for day <= 28 (rrule skips months lacking the day).
  interval < 0: nothing when a > b (as the real one); a <= b or interval == 0: the real rrule raises from its internals or
  does not terminate -- reported through ctx.fail as a candidate failure and decided by concrete replay."""
import datetime as _rdt
from dateutil import rrule as _rr
from . import core
from .core import Unsupported

UNIT = {_rr.DAILY: _rdt.timedelta(days = 1), _rr.WEEKLY: _rdt.timedelta(days = 7), _rr.HOURLY: _rdt.timedelta(hours = 1),
        _rr.MINUTELY: _rdt.timedelta(minutes = 1), _rr.SECONDLY: _rdt.timedelta(seconds = 1)}
MAXLEN = 400

def _add_months(t, k, dtcls):
    y = t.year; m = t.month + k
    y = y + (m - 1) // 12; m = 1 + (m - 1) % 12
    return dtcls(y, m, t.day, t.hour, t.minute, t.second)

def make(dtcls = _rdt.datetime):
    def rrule(freq, interval = 1, dtstart = None, until = None, byweekday = None, **kw):
        if kw: raise Unsupported('rrule stub: unsupported arguments %s' % sorted(kw))
        c = core.CUR
        if not isinstance(interval, int) or core.is_sym(interval):
            if core.is_sym(interval): interval = c.concretize_int(core.zi(interval), limit = 64) if c is not None else interval
        if interval == 0:
            if c is not None and c.mode == 'sym': c.fail('rrule-with-interval-0-does-not-terminate')
            raise Unsupported('rrule stub: interval 0 (the real rrule does not terminate)')
        if interval < 0:
            if dtstart > until: return []
            if c is not None and c.mode == 'sym': c.fail('rrule-with-negative-interval-raises-from-its-internals')
            raise ValueError('day is out of range for month')
        allowed = None if byweekday is None else [w.weekday for w in byweekday]
        out = []; cur = dtstart; k = 0
        if freq in (_rr.MONTHLY, _rr.YEARLY):
            if dtstart.day > 28: raise Unsupported('rrule stub: monthly/yearly recurrence from day > 28 is outside the validated contract')
        while cur <= until:
            if allowed is None or cur.weekday() in allowed: out.append(cur)
            k += 1
            if k > MAXLEN: raise core.FuelExhausted('rrule stub: more than %d elements' % MAXLEN)
            if freq in UNIT: cur = cur + UNIT[freq] * interval
            elif freq == _rr.MONTHLY: cur = _add_months(dtstart, k * interval, dtcls)
            elif freq == _rr.YEARLY: cur = _add_months(dtstart, 12 * k * interval, dtcls)
            else: raise Unsupported('rrule stub: freq %r' % freq)
        return out
    return rrule

def gate():
    """the stub, run on plain datetimes, equals the real rrule on an exhaustive small grid"""
    stub = make(); n = 0
    starts = [_rdt.datetime(1999, 12, 27) + _rdt.timedelta(days = i) for i in range(0, 40, 3)] + [_rdt.datetime(2000, 2, 28, 13, 45, 10), _rdt.datetime(2023, 12, 28)]
    for freq, spans in [(_rr.DAILY, [_rdt.timedelta(days = d) for d in (-3, 0, 1, 6, 7, 13)]), (_rr.WEEKLY, [_rdt.timedelta(days = d) for d in (-1, 0, 6, 7, 20, 21)]),
                        (_rr.HOURLY, [_rdt.timedelta(hours = h, minutes = 30) for h in (-1, 0, 1, 5, 26)]), (_rr.MINUTELY, [_rdt.timedelta(minutes = m, seconds = 5) for m in (-1, 0, 3, 61)]),
                        (_rr.SECONDLY, [_rdt.timedelta(seconds = s) for s in (-1, 0, 2, 61)]), (_rr.MONTHLY, [_rdt.timedelta(days = d) for d in (-10, 0, 27, 31, 59, 200, 400)]),
                        (_rr.YEARLY, [_rdt.timedelta(days = d) for d in (-10, 0, 364, 365, 366, 800)])]:
        for a in starts:
            for sp in spans:
                if freq in (_rr.MONTHLY, _rr.YEARLY) and a.day > 28: continue
                for k in (1, 2, 3, 5):
                    for bw in (None, (_rr.MO, _rr.TU, _rr.WE, _rr.TH, _rr.FR), (_rr.SU, _rr.MO, _rr.TU, _rr.WE, _rr.TH)):
                        if bw is not None and freq != _rr.DAILY: continue
                        kw = dict(interval = k, dtstart = a, until = a + sp)
                        if bw is not None: kw['byweekday'] = bw
                        real = list(_rr.rrule(freq, **kw)); mine = stub(freq, **kw); n += 1
                        if real != mine: return False, dict(mismatch = str((freq, kw)), real = str(real[:4]), stub = str(mine[:4]))
                # negative interval with start > until yields nothing
                if sp.total_seconds() < 0:
                    if list(_rr.rrule(freq, interval = -1, dtstart = a, until = a + sp)) != []: return False, dict(mismatch = 'negative interval')
                    n += 1
    return True, dict(comparisons = n)
