"""C20 perdictable evaluates a function once per row of the keyed join of its inputs."""
import datetime as _rdt
from vf.runner import Ob
from vf.symx import core, shims, ops as X
from . import values as V
from .c02 import setup as setup_join

FUNCS = ['pyg_base._perdictable:perdictable.wrapped', 'pyg_base._perdictable:perdictable._value_output', 'pyg_base._perdictable:join', 'pyg_base._perdictable:_item',
         'pyg_base._perdictable:_join_dictable_with_defaults', 'pyg_base._dictable:dictable.join', 'pyg_base._dictable:dictable.xor', 'pyg_base._dictable:dictable.sort',
         'pyg_base._dictable:dictable.listby', 'pyg_base._reducer:reducer']
BOUNDS = dict(inputs = '2 inputs a, b (plus a scalar third in some obligations), each a scalar or a table of 0..2 rows keyed by k (or by k, j) with distinct symbolic int keys and symbolic int values',
              defaults = 'b with a default (outer join) or without', cache = 'previously computed table over any subset / superset of the joined keys in any order, expiry per key = today + off days, '
              'off any non-zero int in [-5, 5] (past / future) or None or absent')
OUTSIDE = ['expiry exactly equal to today (the statement only speaks of past / future / None / absent)', 'functions with dict output (function.output)', 'more than 2 rows per input', 'duplicate keys inside one input',
           '4 inputs', 'renames']
ASSUMPTIONS = ['keys within one input table are pairwise different (assumed)', 'today is the real clock\'s date; expiries are symbolic offsets from it', 'f(a, b) = 1000 a + b records its calls']

def setup():
    setup_join()
    import pyg_base._perdictable as PD
    class _L:
        def warning(self, *a, **k): pass
        def info(self, *a, **k): pass
    PD.logger = _L()

def mkf(calls):
    def f(a, b):
        calls.append((a, b)); return 1000 * a + b
    return f

def table(c, name, n, two = False, jfirst = False):
    from pyg_base import dictable
    ks = [c.int('%s.k%d' % (name, i), -3, 3) for i in range(n)]
    for i in range(n):
        for j in range(i): c.assume(ks[i] != ks[j])
    vs = [c.int('%s.v%d' % (name, i), -9, 9) for i in range(n)]
    cols = dict(k = ks)
    if two: cols['j'] = [c.int('%s.j%d' % (name, i), 0, 1) for i in range(n)]
    cols[name] = vs
    if two and jfirst: cols = dict(j = cols['j'], k = cols['k'], **{name: vs})           # the key columns listed in another order than `on`
    return dictable({k: list(v) for k, v in cols.items()}), cols

def lookup(cols, name, key, two):
    """oracle: the value of this key in an input table, or None (forks on key equality)"""
    n = len(cols['k'])
    for i in range(n):
        if cols['k'][i] == key[0] and (not two or cols['j'][i] == key[1]): return cols[name][i]
    return None

def keys_of(cols, two): return [(cols['k'][i],) + ((cols['j'][i],) if two else ()) for i in range(len(cols['k']))]

def sort_keys(keys):
    """oracle: ascending order of concrete-after-fork int tuples (forks on comparisons)"""
    out = []
    for k in keys:
        pos = len(out)
        for p, o in enumerate(out):
            if lt(k, o): pos = p; break
        out.insert(pos, k)
    return out
def lt(a, b):
    for x, y in zip(a, b):
        if x < y: return True
        if y < x: return False
    return False
def keq(a, b): return X.And([x == y for x, y in zip(a, b)])

def result_rows(r, two, col = 'data'):
    return [((r['k'][p],) + ((r['j'][p],) if two else ()), r[col][p]) for p in range(len(r))]

def h_scalar(c):
    from pyg_base import perdictable
    calls = []; p = perdictable(mkf(calls), on = 'k')
    x = c.int('x', -9, 9); y = c.int('y', -9, 9)
    r = p(a = x, b = y)
    c.check('all-scalar-inputs-return-f-itself', r == 1000 * x + y and len(calls) == 1)

def h_tables(na, nb, b_scalar, two, default, jfirst = False):
    def h(c):
        from pyg_base import perdictable, dictable
        calls = []; kw = dict(on = ['k', 'j'] if two else 'k')
        if default: kw['defaults'] = dict(b = 7)
        p = perdictable(mkf(calls), **kw)
        A, ac = table(c, 'a', na, two, jfirst)
        if b_scalar: B = c.int('b', -9, 9); bc = None
        else: B, bc = table(c, 'b', nb, two)
        r = p(a = A, b = B)
        want = []
        for key in keys_of(ac, two):
            av = lookup(ac, 'a', key, two)
            bv = B if b_scalar else lookup(bc, 'b', key, two)
            if bv is None and default: bv = 7
            if bv is None: continue
            want.append((key, 1000 * av + bv))
        if default and not b_scalar:
            pass          # keys only in b are not part of the result: a is required (inner), b is outer-joined onto it
        order = sort_keys([k for k, v in want])
        c.cover('some-rows', len(want) > 0) if na and (nb or b_scalar or default) else None
        if len(want) == 0:
            c.check('no-common-key-gives-no-rows', r is None or len(r) == 0); c.check('f-not-called', len(calls) == 0); return
        rows = result_rows(r, two)
        c.check('one-row-per-key-present-in-every-table-input', len(rows) == len(want))
        c.check('sorted-by-key', X.And([keq(rows[i][0], order[i]) for i in range(len(rows))]))
        for key, val in rows:
            exp = [v for k, v in want if keq(k, key)]
            c.check('value-is-f-of-that-key-s-values', len(exp) == 1 and val == exp[0])
        c.check('f-called-exactly-once-per-row', len(calls) == len(want))
        c.check('inputs-unchanged', all(A[k][i] is ac[k][i] for k in ac for i in range(na)))
    return h

def h_sigdefault(na, nb):
    """f declares a default for b in its signature, the caller names only a in `defaults`: a is outer-joined, b (a table) stays inner-joined"""
    def h(c):
        from pyg_base import perdictable
        calls = []
        def f(a, b = 5):
            calls.append((a, b)); return 1000 * a + b
        p = perdictable(f, on = 'k', defaults = dict(a = 7))
        A, ac = table(c, 'a', na); B, bc = table(c, 'b', nb)
        r = p(a = A, b = B)
        want = []
        for key in keys_of(bc, False):
            av = lookup(ac, 'a', key, False); bv = lookup(bc, 'b', key, False)
            want.append((key, 1000 * (7 if av is None else av) + bv))
        if not want:
            c.check('no-key-in-the-inner-joined-table-gives-no-rows', r is None or len(r) == 0); return
        rows = result_rows(r, False); order = sort_keys([k for k, v in want])
        c.check('one-row-per-key-of-the-inner-joined-input-only', len(rows) == len(want))
        c.check('sorted-by-key', X.And([keq(rows[i][0], order[i]) for i in range(len(rows))]))
        for key, val in rows:
            exp = [v for k, v in want if keq(k, key)]
            c.check('value-is-f-with-the-named-default-for-a', len(exp) == 1 and val == exp[0])
        c.check('f-called-exactly-once-per-row', len(calls) == len(want))
    return h

def h_cache(na, nd, ne, oii = True):
    """previously computed values with expiries: past -> kept and f not called; everything else recomputed exactly once"""
    def h(c):
        from pyg_base import perdictable, dictable, dt
        td = shims.shim_timedelta if c.mode == 'sym' else _rdt.timedelta
        calls = []; p = perdictable(mkf(calls), on = 'k') if oii else perdictable(mkf(calls), on = 'k', output_is_input = False)
        A, ac = table(c, 'a', na); bsc = c.int('b', -9, 9)
        D, dc = table(c, 'data', nd)                       # cached values: keys may be a subset / superset of a's keys, in any order
        today = dt(0)
        ek = [c.int('e.k%d' % i, -3, 3) for i in range(ne)]
        for i in range(ne):
            for j in range(i): c.assume(ek[i] != ek[j])
        kinds = [c.pick('e.kind%d' % i, ['past', 'future', 'none']) for i in range(ne)]
        offs = [c.int('e.off%d' % i, 1, 5) for i in range(ne)]
        ev = [None if kinds[i] == 'none' else today + td(days = -offs[i] if kinds[i] == 'past' else offs[i]) for i in range(ne)]
        E = dictable(k = list(ek), expiry = list(ev))
        r = p(a = A, b = bsc, data = D, expiry = E)
        want = []; ncalls = 0
        for key in keys_of(ac, False):
            av = lookup(ac, 'a', key, False)
            cached = lookup(dc, 'data', key, False)
            exp_i = [i for i in range(ne) if ek[i] == key[0]]
            past = bool(exp_i) and kinds[exp_i[0]] == 'past'
            if cached is not None and past: want.append((key, cached))
            elif past and cached is None: want.append((key, None))        # expired row without a cached value: kept as it is (None)
            else: want.append((key, 1000 * av + bsc)); ncalls += 1
        if na == 0:
            return
        if nd and ne and 'past' in kinds: c.cover('kept-from-cache', any(v is not None and ncalls < len(want) for k, v in want))
        if nd: c.cover('stale-cached-key', X.Or([X.And([dk != k for k in ac['k']] + [True]) for dk in dc['k']] + [False]))
        rows = result_rows(r, False)
        order = sort_keys([k for k, v in want])
        c.check('one-row-per-key-of-the-join-no-stale-keys', len(rows) == len(want))
        c.check('sorted-by-key', X.And([keq(rows[i][0], order[i]) for i in range(len(rows))]))
        for key, val in rows:
            exp = [v for k, v in want if keq(k, key)]
            c.check('cached-and-expired-rows-keep-their-value-all-others-are-recomputed', len(exp) == 1 and (val is None if exp[0] is None else val == exp[0]))
        c.check('f-called-exactly-once-for-each-recomputed-row-and-never-for-kept-rows', len(calls) == ncalls)
    return h

def obligations(tier):
    q = tier == 'quick'
    obs = [Ob('scalar', h_scalar, setup = setup, desc = 'all inputs scalar: returns f(...)')]
    for na in range(0, 3):
        for nb in range(0, 3):
            for default in (False, True):
                if q and na + nb > 3: continue
                obs.append(Ob('tables.%dx%d.%s' % (na, nb, 'outer-b' if default else 'inner'), h_tables(na, nb, False, False, default), setup = setup, budget_s = 300 if q else 1500,
                              desc = 'a (%d rows) and b (%d rows) keyed by k, %s: one row per joined key, sorted, f once per row' % (na, nb, 'b has a default' if default else 'inner join')))
        obs.append(Ob('tables.%d.scalar-b' % na, h_tables(na, 0, True, False, False), setup = setup, budget_s = 300, desc = 'a table (%d rows), b scalar (broadcast)' % na))
    for na, nb in [(1, 1), (2, 1)] + ([] if q else [(2, 2)]):
        obs.append(Ob('two-keys.%dx%d' % (na, nb), h_tables(na, nb, False, True, False), setup = setup, budget_s = 300 if q else 1500, desc = 'two key columns, %d x %d rows' % (na, nb)))
    for na, nb in [(1, 1), (2, 1), (1, 2)]:
        obs.append(Ob('signature-default.%dx%d' % (na, nb), h_sigdefault(na, nb), setup = setup, budget_s = 300, desc = 'f(a, b = 5) lifted with defaults = dict(a = 7): only a is outer-joined (a %d rows, b %d rows)' % (na, nb)))
    for na, nd, ne in [(1, 1, 1), (2, 2, 1)]:
        for i, k0 in enumerate(['past', 'future', 'none']):
            obs.append(Ob('cache.output-not-input.%d.%d.%d.%s' % (na, nd, ne, k0), h_cache(na, nd, ne, False), setup = setup, pins = {'e.kind0': i}, budget_s = 400, desc = 'the same with output_is_input = False (first expiry %s)' % k0))
    for na, nb in [(2, 1), (2, 2)]:
        obs.append(Ob('two-keys.j-first.%dx%d' % (na, nb), h_tables(na, nb, False, True, False, True), setup = setup, budget_s = 300 if q else 1500, desc = 'two key columns, the first table lists them in the reverse of `on`, %d x %d rows: rows sorted by `on`' % (na, nb)))
    for na, nd, ne in [(1, 0, 0), (1, 1, 1), (1, 2, 1), (2, 1, 1), (2, 2, 1)] + ([] if q else [(2, 1, 2), (2, 2, 2)]):
        for i, k0 in enumerate(['past', 'future', 'none'] if ne else ['-']):
            obs.append(Ob('cache.%d.%d.%d.%s' % (na, nd, ne, k0), h_cache(na, nd, ne), setup = setup, pins = {'e.kind0': i} if ne else None, budget_s = 400 if q else 2400,
                          desc = 'a with %d rows, %d cached values, %d expiries (first one %s): kept vs recomputed, no stale keys, sorted' % (na, nd, ne, k0)))
    return obs
