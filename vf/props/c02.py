"""C02 join is the relational inner/cross join and xor the anti-join; both terminate."""
from vf.runner import Ob
from vf.symx import core, shims, ops as X
from . import values as V
from .c07 import setup as setup_sort

FUNCS = ['pyg_base._dictable:dictable.join', 'pyg_base._dictable:dictable.xor', 'pyg_base._dictable:dictable._listby', 'pyg_base._dictable:dictable.__getitem__',
         'pyg_base._sort:sort', 'pyg_base._sort:cmp', 'pyg_base._sort:cmparr', 'pyg_base._as_primitive:_as_primitive']
BOUNDS = dict(tables = 'left 0..2 rows x right 0..2 rows (thorough 3 x 2 and 2 x 3), one key column (thorough also two), duplicate keys on either side',
              keys = 'None | any int | any float incl. NaN objects of same / different identity, +-inf | string from a 2-pool | datetime / date (thorough)',
              spellings = 'lcols/rcols in {None (shared columns), name, list of names, different names, callable on the right side, [] (cross product)}; '
                          'mode in {None, "l", "r", 0, 1, callable}')
OUTSIDE = ['keys that are containers', 'more than 3 rows per side', 'three key columns', 'bool keys (True == 1 in python but not under cmp)']
ASSUMPTIONS = ['floats are extended reals; strings from a pool; payload columns carry concrete row ids so results are compared as lists of (left id, right id) pairs',
               'termination: a path with more than 4000 solver-decided branches counts as non-terminating and is confirmed by a concrete replay under a 20 s alarm']

KEYK = ['none', 'int', 'float', 'str']

def setup():
    setup_sort()
    import pyg_base._dictable as DT
    # the join prints its key columns through a cached logger call: formatting is not the subject
    DT._print_cols = lambda *a, **k: None

def keyeq(a, b):
    """oracle key equality: None = None, NaN = NaN, int == same-valued float, str == str"""
    if a is None or b is None: return a is None and b is None
    if isinstance(a, str) or isinstance(b, str): return isinstance(a, str) and isinstance(b, str) and a == b
    return X.Or(a == b, X.And(V.is_nan(a), V.is_nan(b)))

def mk(c, side, n, ncols, kinds, floats, keynames, payload):
    from pyg_base import dictable
    cols = {k: [] for k in keynames}
    for i in range(n):
        for k in keynames:
            v = V.scalar(c, '%s.%s%d' % (side, k, i), kinds, pool = floats, strs = ['b', 'aa'])
            if isinstance(v, (float, core.SymFloat)) and v.__class__ is float: floats.append(v)
            cols[k].append(v)
    cols[payload] = list(range(n)); cols['v'] = ['%s%d' % (side, i) for i in range(n)]
    return dictable(**{k: list(v) for k, v in cols.items()}), cols

def snapshot(cols): return {k: list(v) for k, v in cols.items()}
def unchanged(d, snap): return list(d.keys()) == list(snap.keys()) and all(len(d[k]) == len(snap[k]) and all(a is b for a, b in zip(d[k], snap[k])) for k in snap)

SPELL = ['shared', 'name', 'list', 'different-names', 'callable-right']
def h_join(nl, nr, ncols, kinds, spell, mode):
    def h(c):
        floats = []
        lk = ['k', 'j'][:ncols]; rk = lk if spell in ('shared', 'name', 'list') else ['q', 'p'][:ncols]
        x, xc = mk(c, 'L', nl, ncols, kinds, floats, lk, 'lid'); y, yc = mk(c, 'R', nr, ncols, kinds, floats, rk, 'rid')
        xs, ys = snapshot(xc), snapshot(yc)
        if spell == 'shared': args = dict()
        elif spell == 'name': args = dict(lcols = lk[0] if ncols == 1 else lk)
        elif spell == 'list': args = dict(lcols = list(lk))
        elif spell == 'different-names': args = dict(lcols = lk[0] if ncols == 1 else lk, rcols = rk[0] if ncols == 1 else rk)
        else: args = dict(lcols = lk[0], rcols = (lambda q: q)) if ncols == 1 else dict(lcols = lk, rcols = [lambda q: q, 'p'])
        if spell == 'shared' and ncols == 1:      # shared columns are k and v: join on both would make v a key; keep v out by renaming
            x = x.relabel(v = 'vl'); y = y.relabel(v = 'vr'); xs['vl'] = xs.pop('v'); ys['vr'] = ys.pop('v'); xc = dict(xc); yc = dict(yc); xc['vl'] = xc.pop('v'); yc['vr'] = yc.pop('v')
        elif spell == 'shared':
            x = x.relabel(v = 'vl'); y = y.relabel(v = 'vr'); xs['vl'] = xs.pop('v'); ys['vr'] = ys.pop('v'); xc = dict(xc); yc = dict(yc); xc['vl'] = xc.pop('v'); yc['vr'] = yc.pop('v')
        f = lambda a, b: (b, a)
        margs = dict(args);
        if mode != 'default': margs['mode'] = f if mode == 'callable' else mode
        r = x.join(y, **margs)
        pairs = sorted(zip(r['lid'], r['rid'])) if len(r) else []
        want = []
        for i in range(nl):
            for j in range(nr):
                if X.And([keyeq(xc[a][i], yc[b][j]) for a, b in zip(lk, rk)]): want.append((i, j))      # forks: one path per match pattern
        c.cover('some-match', len(want) > 0) if nl and nr else None
        c.check('join-is-exactly-the-matching-pairs-with-multiplicity', pairs == sorted(want))
        keycol = lk if spell != 'callable-right' or True else lk
        outk = [a if True else b for a, b in zip(lk, rk)]
        c.check('columns', set(r.keys()) == set(x.keys()) | (set(y.keys()) - set(lk)))      # right key columns under another name are carried as ordinary columns
        for p in range(len(r)):
            i, j = r['lid'][p], r['rid'][p]
            for a, b in zip(lk, rk):
                c.check('key-value-carried', keyeq(r[a][p], xc[a][i]))
            if 'v' in r.keys():
                lv, rv = xc['v'][i], yc['v'][j]
                exp = (lv, rv) if mode == 'default' else lv if mode in ('l', 0, 'left') else rv if mode in ('r', 1) else (rv, lv)
                c.check('same-named-column-combined-as-mode-prescribes', r['v'][p] == exp)
            else:
                c.check('other-columns-carried', r['vl'][p] == xc['vl'][i] and r['vr'][p] == yc['vr'][j])
        c.check('operands-unchanged', unchanged(x, xs) and unchanged(y, ys))
        # anti-join
        xo = x.xor(y, **args)
        matched = sorted(set(i for i, j in want))
        c.check('xor-is-exactly-the-left-rows-without-match', sorted(xo['lid']) == [i for i in range(nl) if i not in matched])
        c.check('every-left-row-in-exactly-one-of-join-and-xor', sorted(set(r['lid']) if len(r) else []) == matched)
        c.check('xor-keeps-columns', list(xo.keys()) == list(x.keys()))
        c.check('operands-unchanged-after-xor', unchanged(x, xs) and unchanged(y, ys))
        yo = x.xor(y, mode = 'r', **args)
        rmatched = set(j for i, j in want)
        c.check('xor-mode-r-is-the-right-rows-without-match', sorted(yo['rid']) == [j for j in range(nr) if j not in rmatched])
    return h

def h_cross(nl, nr):
    def h(c):
        floats = []
        x, xc = mk(c, 'L', nl, 1, ['none', 'int'], floats, ['k'], 'lid'); y, yc = mk(c, 'R', nr, 1, ['none', 'int'], floats, ['q'], 'rid')
        y = y.relabel(v = 'w')
        r = x.join(y, [], [])
        c.check('no-key-gives-the-full-cross-product', sorted(zip(r['lid'], r['rid'])) == [(i, j) for i in range(nl) for j in range(nr)] if nl and nr else len(r) == 0)
        if nl and nr: c.check('cells-carried', all(r['k'][p] is xc['k'][r['lid'][p]] and r['q'][p] is yc['q'][r['rid'][p]] for p in range(len(r))))
        c.check('xor-with-no-key-is-a-copy', list(x.xor(y, [], [])['lid']) == list(range(nl)))
    return h

def h_cross_shared(nl, nr, mode):
    """an explicitly empty key list is the cross product even when the tables share column names; the shared columns are combined as the mode prescribes"""
    def h(c):
        floats = []
        x, xc = mk(c, 'L', nl, 1, ['none', 'int'], floats, ['k'], 'lid'); y, yc = mk(c, 'R', nr, 1, ['none', 'int'], floats, ['k'], 'rid')
        r = x.join(y, []) if mode == 'default' else x.join(y, [], mode = mode)
        want = [(i, j) for i in range(nl) for j in range(nr)]
        c.check('empty-key-list-gives-the-full-cross-product-also-with-shared-column-names', (sorted(zip(r['lid'], r['rid'])) if len(r) else []) == want)
        for p in range(len(r)):
            i, j = r['lid'][p], r['rid'][p]
            for col in ('k', 'v'):
                lv, rv = xc[col][i], yc[col][j]
                got = r[col][p]
                if mode == 'default': c.check('shared-columns-paired', isinstance(got, tuple) and len(got) == 2 and got[0] is lv and got[1] is rv)
                else: c.check('shared-columns-as-mode-prescribes', got is (lv if mode == 'l' else rv))
    return h

def obligations(tier):
    q = tier == 'quick'
    obs = []
    for nl, nr in [(1, 1), (2, 1), (2, 2)]:
        for mode in ('default', 'l', 'r'):
            obs.append(Ob('cross.shared-names.%dx%d.%s' % (nl, nr, mode), h_cross_shared(nl, nr, mode), setup = setup, budget_s = 300, desc = 'join(y, []) of %d x %d rows sharing the column names k, v: full cross product, mode %s' % (nl, nr, mode)))
    shapes = [(0, 0), (0, 2), (2, 0), (1, 1), (1, 2), (2, 1), (2, 2)] + ([] if q else [(3, 2), (2, 3)])
    LITE = ['none', 'int']
    def add(name, nl, nr, kinds, spell, mode, pins, budget, what):
        obs.append(Ob(name, h_join(nl, nr, 1, kinds, spell, mode), setup = setup, pins = pins, budget_s = budget, fuel = 4000,
                      desc = 'join/xor of %d x %d rows, one key column (%s), %s spelling, mode %s: pairs, columns, anti-join, termination, operands' % (nl, nr, what, spell, mode)))
    for nl, nr in shapes:
        # every key kind (None, ints, floats incl. NaN identity and +-inf, strings): the 'name' spelling, default mode
        if nl * nr >= 4:
            for i, k0 in enumerate(KEYK):
                for j, k1 in enumerate(KEYK):
                    add('join.%dx%d.name.default.%s-%s' % (nl, nr, k0, k1), nl, nr, KEYK, 'name', 'default', {'L.k0.kind': i, 'R.k0.kind': j}, 300 if nl * nr <= 4 else 2400, 'all key kinds')
        else:
            add('join.%dx%d.name.default' % (nl, nr), nl, nr, KEYK, 'name', 'default', None, 300, 'all key kinds')
        # the other spellings and the modes do not depend on the key values: None / int keys (thorough: all kinds)
        for spell in SPELL:
            for mode in (['default'] if spell != 'name' else ['l', 'r', 0, 1, 'callable']):
                if q and (nl, nr) not in ((2, 2), (1, 2), (0, 2)): continue
                add('join.%dx%d.%s.%s' % (nl, nr, spell, mode), nl, nr, LITE if q or nl * nr >= 4 else KEYK, spell, mode, None, 300 if q else 1200, 'None/int keys' if q or nl * nr >= 4 else 'all key kinds')
    for nl, nr in ([(1, 1)] if q else [(1, 1), (2, 1), (1, 2)]):
        for i, k0 in enumerate(['none', 'int', 'float']):
            obs.append(Ob('join2.%dx%d.%s' % (nl, nr, k0), h_join(nl, nr, 2, ['none', 'int', 'float'], 'different-names', 'default'), setup = setup, pins = {'L.k0.kind': i},
                          budget_s = 300 if q else 2400, fuel = 4000, desc = 'join/xor on two key columns, %d x %d rows' % (nl, nr)))
    for nl, nr in [(0, 2), (2, 0), (2, 2), (1, 3)]:
        obs.append(Ob('cross.%dx%d' % (nl, nr), h_cross(nl, nr), setup = setup, desc = 'join with no key is the cross product (%d x %d)' % (nl, nr)))
    return obs
