"""symx core: proxy-based symbolic execution of real Python code with z3.

The code under test runs natively in CPython; inputs are *proxy* objects whose
operators build z3 terms.  Whenever Python needs a real bool (``if``, ``while``,
``and``, ``or``, ``not``) ``SymBool.__bool__`` asks the solver which outcomes are
feasible under the current path condition, takes one and schedules the other:
depth-first exploration by re-execution with a decision prefix.

The same harness can be run in *concrete mode* (``Ctx(values=...)``): every
variable is then a plain Python value read from a model, no proxy exists, nothing
is patched -- this is how counterexamples are replayed against the real code.
"""
import z3, time, builtins, math, datetime as _rdt, fractions

class Unsupported(Exception):
    """the symbolic run reached something the encoding does not cover -> inconclusive"""
class FuelExhausted(Unsupported):
    """more branch decisions on one path than the stated unwinding bound"""
class Deadline(Unsupported):
    """time budget of the obligation exhausted"""
class SolverUnknown(Unsupported):
    """z3 answered unknown"""
class Infeasible(BaseException):
    """raised by assume() when the assumption cannot hold on this path: path is dropped"""

CUR = None          # the active Ctx
import shutil as _sh, os as _os
EXT_SOLVER = None if _os.environ.get('VF_NO_CVC5') else _sh.which('cvc5')     # portfolio partner for queries z3 cannot finish
EXT_TIMEOUT_S = 60

def cur():
    return CUR

# --------------------------------------------------------------------------- helpers to move between python / proxies / z3

def is_sym(x):
    return isinstance(x, (SymInt, SymBool, SymFloat, SymDatetime, SymTimedelta))

def zi(v):
    """python int/bool or SymInt/SymBool -> z3 Int term (None if not int-like)"""
    if isinstance(v, SymInt): return v.e
    if isinstance(v, SymBool): return z3.If(v.e, 1, 0)
    t = builtins.type(v)
    if t is bool: return z3.IntVal(int(v))
    if t is int: return z3.IntVal(v)
    if z3.is_expr(v):
        if z3.is_int(v): return v
        if z3.is_bool(v): return z3.If(v, 1, 0)
    try:
        import numpy as _np
        if isinstance(v, _np.integer): return z3.IntVal(int(v))
    except ImportError:
        pass
    return None

def zb(v):
    """python truth value or SymBool -> z3 Bool term"""
    if isinstance(v, SymBool): return v.e
    if z3.is_expr(v) and z3.is_bool(v): return v
    if isinstance(v, SymInt): return v.e != 0
    if isinstance(v, SymFloat): return z3.Or(v.kind != 0, v.val != 0)
    if is_sym(v): return z3.BoolVal(True)
    return z3.BoolVal(bool(v))

def mkbool(e):
    """z3 Bool term -> python bool when it simplifies to a constant, else SymBool"""
    e = z3.simplify(e)
    if z3.is_true(e): return True
    if z3.is_false(e): return False
    return SymBool(e)

def mkint(e):
    e = z3.simplify(e)
    if z3.is_int_value(e): return e.as_long()
    return SymInt(e)

# --------------------------------------------------------------------------- proxies

class SymBool:
    __slots__ = ('e',)
    def __init__(self, e): self.e = e
    def __bool__(self): return CUR.branch(self.e)
    @property
    def __class__(self): return bool
    def __eq__(s, o):
        if isinstance(o, (SymBool, bool)): return mkbool(s.e == zb(o))
        z = zi(o)
        if z is not None: return mkbool(zi(s) == z)
        if isinstance(o, SymFloat): return o.__eq__(s)
        return False
    def __ne__(s, o):
        r = s.__eq__(o)
        return sym_not(r)
    def _i(s): return SymInt(z3.If(s.e, 1, 0))
    def __lt__(s, o): return s._i().__lt__(o)
    def __le__(s, o): return s._i().__le__(o)
    def __gt__(s, o): return s._i().__gt__(o)
    def __ge__(s, o): return s._i().__ge__(o)
    def __add__(s, o): return s._i().__add__(o)
    def __radd__(s, o): return s._i().__radd__(o)
    def __sub__(s, o): return s._i().__sub__(o)
    def __rsub__(s, o): return s._i().__rsub__(o)
    def __mul__(s, o): return s._i().__mul__(o)
    def __rmul__(s, o): return s._i().__rmul__(o)
    def __neg__(s): return s._i().__neg__()
    def __and__(s, o):
        if isinstance(o, (SymBool, bool)): return mkbool(z3.And(s.e, zb(o)))
        return NotImplemented
    __rand__ = __and__
    def __or__(s, o):
        if isinstance(o, (SymBool, bool)): return mkbool(z3.Or(s.e, zb(o)))
        return NotImplemented
    __ror__ = __or__
    def __invert__(s): raise Unsupported('~ on symbolic bool')
    def __hash__(s): raise Unsupported('hash of symbolic bool')
    def __index__(s): return CUR.concretize_int(z3.If(s.e, 1, 0))
    def __int__(s): return s._i()
    def __float__(s): raise Unsupported('float() of symbolic bool reached a C boundary')
    def __repr__(s): return 'SymBool(%s)' % s.e

def sym_not(v):
    if isinstance(v, SymBool): return mkbool(z3.Not(v.e))
    if is_sym(v): return not bool(v)
    return not v

def _fdiv(a, b):
    # python floor division by a concrete non-zero int on z3 Ints (z3 div is euclidean: floor for b>0)
    if b > 0: return a / b
    return (-a) / (-b)
def _fmod(a, b):
    if b > 0: return a % b
    return -((-a) % (-b))

class SymInt:
    __slots__ = ('_e',)
    def __init__(self, e): self._e = e
    @property
    def e(self): return self._e
    @property
    def __class__(self): return int
    def _bin(self, o, f, r = False):
        if isinstance(o, (_rdt.timedelta, SymTimedelta, SymFloat)) or isinstance(o, builtins.float): return NotImplemented
        z = zi(o)
        if z is None: return NotImplemented
        return mkint(f(z, self.e) if r else f(self.e, z))
    def __add__(self, o): return self._bin(o, lambda a, b: a + b)
    def __radd__(self, o): return self._bin(o, lambda a, b: a + b, True)
    def __sub__(self, o): return self._bin(o, lambda a, b: a - b)
    def __rsub__(self, o): return self._bin(o, lambda a, b: a - b, True)
    def __mul__(self, o):
        if isinstance(o, _rdt.timedelta): return SymTimedelta(self.e * td_us(o))
        if isinstance(o, SymTimedelta):
            raise Unsupported('non-linear: symbolic int * symbolic timedelta')
        if isinstance(o, (SymInt, SymBool)):
            return mkint(self.e * zi(o))      # non-linear; z3 may answer unknown -> inconclusive
        return self._bin(o, lambda a, b: a * b)
    __rmul__ = __mul__
    def __floordiv__(self, o):
        if isinstance(o, (SymInt, SymBool)):
            z = zi(o)
            if CUR.branch(z == 0): raise ZeroDivisionError('integer division or modulo by zero')
            return mkint(z3.If(z > 0, self.e / z, (-self.e) / (-z)))
        if builtins.type(o) in (int, bool):
            if o == 0: raise ZeroDivisionError('integer division or modulo by zero')
            return mkint(_fdiv(self.e, int(o)))
        return NotImplemented
    def __rfloordiv__(self, o):
        if builtins.type(o) in (int, bool): return SymInt(z3.IntVal(int(o))).__floordiv__(self)
        return NotImplemented
    def __mod__(self, o):
        if isinstance(o, (SymInt, SymBool)):
            z = zi(o)
            if CUR.branch(z == 0): raise ZeroDivisionError('integer division or modulo by zero')
            return mkint(z3.If(z > 0, self.e % z, -((-self.e) % (-z))))
        if builtins.type(o) in (int, bool):
            if o == 0: raise ZeroDivisionError('integer division or modulo by zero')
            return mkint(_fmod(self.e, int(o)))
        return NotImplemented
    def __rmod__(self, o):
        if builtins.type(o) in (int, bool): return SymInt(z3.IntVal(int(o))).__mod__(self)
        return NotImplemented
    def __divmod__(self, o): return (self // o, self % o)
    def __truediv__(self, o): return tofloat(self).__truediv__(o)
    def __rtruediv__(self, o): return tofloat(o).__truediv__(self)
    def __neg__(self): return mkint(-self.e)
    def __pos__(self): return self
    def __abs__(self): return mkint(z3.If(self.e >= 0, self.e, -self.e))
    def _cmp(self, o, f):
        if isinstance(o, SymFloat) or isinstance(o, builtins.float): return NotImplemented
        z = zi(o)
        if z is None: return NotImplemented
        return mkbool(f(self.e, z))
    def __lt__(self, o): return self._cmp(o, lambda a, b: a < b)
    def __le__(self, o): return self._cmp(o, lambda a, b: a <= b)
    def __gt__(self, o): return self._cmp(o, lambda a, b: a > b)
    def __ge__(self, o): return self._cmp(o, lambda a, b: a >= b)
    def __eq__(self, o):
        r = self._cmp(o, lambda a, b: a == b)
        if r is NotImplemented:
            if isinstance(o, SymFloat) or isinstance(o, builtins.float): return tofloat(o).__eq__(self)
            return False
        return r
    def __ne__(self, o): return sym_not(self.__eq__(o))
    def __bool__(self): return CUR.branch(self.e != 0)
    def __hash__(self): raise Unsupported('hash of symbolic int')
    def __index__(self): return CUR.concretize_int(self.e)
    def __int__(self): return self
    def __float__(self): raise Unsupported('float() of symbolic int reached a C boundary')
    def __repr__(self): return 'SymInt(%s)' % self.e
    def __str__(self): return '<symbolic int>'          # only ever used for messages; parsing it back fails loudly
    def __format__(self, spec): return '<symbolic int>'

# ---- floats as extended reals: kind 0 finite (val), 1 nan, 2 +inf, 3 -inf.  Rounding is NOT modelled.
FIN, NAN, PINF, NINF = 0, 1, 2, 3

class SymFloat:
    __slots__ = ('kind', 'val')
    def __init__(self, kind, val): self.kind = kind; self.val = val
    @property
    def __class__(self): return float
    @staticmethod
    def _lt(a, b):
        fin = z3.And(a.kind == FIN, b.kind == FIN, a.val < b.val)
        return z3.And(a.kind != NAN, b.kind != NAN,
                      z3.Or(fin, z3.And(a.kind == NINF, b.kind != NINF), z3.And(b.kind == PINF, a.kind != PINF)))
    @staticmethod
    def _eqz(a, b):
        return z3.And(a.kind != NAN, b.kind != NAN, a.kind == b.kind, z3.Or(a.kind != FIN, a.val == b.val))
    def _o(s, o):
        try: return tofloat(o)
        except Unsupported: return None
    def __lt__(s, o):
        o = s._o(o)
        return NotImplemented if o is None else mkbool(SymFloat._lt(s, o))
    def __gt__(s, o):
        o = s._o(o)
        return NotImplemented if o is None else mkbool(SymFloat._lt(o, s))
    def __le__(s, o):
        o = s._o(o)
        return NotImplemented if o is None else mkbool(z3.Or(SymFloat._lt(s, o), SymFloat._eqz(s, o)))
    def __ge__(s, o):
        o = s._o(o)
        return NotImplemented if o is None else mkbool(z3.Or(SymFloat._lt(o, s), SymFloat._eqz(s, o)))
    def __eq__(s, o):
        o = s._o(o)
        return False if o is None else mkbool(SymFloat._eqz(s, o))
    def __ne__(s, o):
        o = s._o(o)
        return True if o is None else mkbool(z3.Not(SymFloat._eqz(s, o)))
    def __bool__(s): return CUR.branch(z3.Or(s.kind != FIN, s.val != 0))
    def __hash__(s): raise Unsupported('hash of symbolic float')
    def __neg__(s):
        return SymFloat(z3.If(s.kind == PINF, z3.IntVal(NINF), z3.If(s.kind == NINF, z3.IntVal(PINF), s.kind)), -s.val)
    def __pos__(s): return s
    def __abs__(s):
        return SymFloat(z3.If(s.kind == NINF, z3.IntVal(PINF), s.kind), z3.If(s.val >= 0, s.val, -s.val))
    # arithmetic in extended reals (no rounding): enough for alignment / NaN / zero-division properties
    def _arith(a, b, op):
        b = a._o(b)
        if b is None: return NotImplemented
        return _farith(a, b, op)
    def __add__(a, b): return a._arith(b, '+')
    def __radd__(a, b):
        b = a._o(b); return NotImplemented if b is None else _farith(b, a, '+')
    def __sub__(a, b): return a._arith(b, '-')
    def __rsub__(a, b):
        b = a._o(b); return NotImplemented if b is None else _farith(b, a, '-')
    def __mul__(a, b): return a._arith(b, '*')
    def __rmul__(a, b):
        b = a._o(b); return NotImplemented if b is None else _farith(b, a, '*')
    def __truediv__(a, b):
        b = a._o(b)
        if b is None: return NotImplemented
        if CUR.branch(z3.And(b.kind == FIN, b.val == 0)): raise ZeroDivisionError('float division by zero')
        return _farith(a, b, '/')
    def __rtruediv__(a, b):
        b = a._o(b); return NotImplemented if b is None else b.__truediv__(a)
    def __float__(s): raise Unsupported('float() of symbolic float reached a C boundary')
    def __int__(s): raise Unsupported('int() of symbolic float')
    def __index__(s): raise Unsupported('index of symbolic float')
    def __repr__(s): return 'SymFloat(%s,%s)' % (s.kind, s.val)
    def __str__(s): return '<symbolic float>'

def _farith(a, b, op):
    """IEEE-shaped extended-real arithmetic; finite results exact (no rounding, no overflow)."""
    K = z3.IntVal
    anan = z3.Or(a.kind == NAN, b.kind == NAN)
    ainf = a.kind >= PINF; binf = b.kind >= PINF
    if op in '+-':
        bk = b.kind if op == '+' else z3.If(b.kind == PINF, K(NINF), z3.If(b.kind == NINF, K(PINF), b.kind))
        bv = b.val if op == '+' else -b.val
        kind = z3.If(anan, K(NAN),
               z3.If(z3.And(ainf, binf), z3.If(a.kind == bk, a.kind, K(NAN)),
               z3.If(ainf, a.kind, z3.If(binf, bk, K(FIN)))))
        return SymFloat(kind, a.val + bv)
    sa = z3.If(a.kind == PINF, 1, z3.If(a.kind == NINF, -1, z3.If(a.val > 0, 1, z3.If(a.val < 0, -1, 0))))
    sb = z3.If(b.kind == PINF, 1, z3.If(b.kind == NINF, -1, z3.If(b.val > 0, 1, z3.If(b.val < 0, -1, 0))))
    if op == '*':
        sign = sa * sb
        kind = z3.If(anan, K(NAN),
               z3.If(z3.Or(ainf, binf), z3.If(sign == 0, K(NAN), z3.If(sign > 0, K(PINF), K(NINF))), K(FIN)))
        return SymFloat(kind, a.val * b.val)
    if op == '/':
        # caller handled python-float division by zero; numpy-style callers use fdiv_np
        kind = z3.If(anan, K(NAN),
               z3.If(z3.And(ainf, binf), K(NAN),
               z3.If(ainf, z3.If(sa * sb >= 0, K(PINF), K(NINF)),   # inf / finite (sign of zero ignored)
               K(FIN))))
        val = z3.If(z3.Or(binf, b.val == 0), z3.RealVal(0), a.val / z3.If(b.val == 0, z3.RealVal(1), b.val))
        return SymFloat(kind, val)
    raise Unsupported('float op ' + op)

def tofloat(x):
    if isinstance(x, SymFloat): return x
    if isinstance(x, SymInt): return SymFloat(z3.IntVal(FIN), z3.ToReal(x.e))
    if isinstance(x, SymBool): return SymFloat(z3.IntVal(FIN), z3.ToReal(zi(x)))
    t = builtins.type(x)
    if t in (int, bool): return SymFloat(z3.IntVal(FIN), z3.RealVal(int(x)))
    if isinstance(x, builtins.float) and not is_sym(x):
        x = builtins.float(x)
        if x != x: return SymFloat(z3.IntVal(NAN), z3.RealVal(0))
        if x == math.inf: return SymFloat(z3.IntVal(PINF), z3.RealVal(0))
        if x == -math.inf: return SymFloat(z3.IntVal(NINF), z3.RealVal(0))
        return SymFloat(z3.IntVal(FIN), z3.RealVal(fractions.Fraction(x)))
    try:
        import numpy as _np
        if isinstance(x, _np.integer): return tofloat(int(x))
        if isinstance(x, _np.floating): return tofloat(builtins.float(x))
    except ImportError:
        pass
    raise Unsupported('tofloat %r' % (builtins.type(x),))

# ---- time
US_DAY = 86400 * 10**6
ORD_MIN = 693596      # 1900-01-01
ORD_MAX = 839693      # 2300-01-01 (exclusive): one full 400-year cycle = 146097 days

def td_us(td): return (td.days * 86400 + td.seconds) * 10**6 + td.microseconds
def tod_us(t): return ((t.hour * 60 + t.minute) * 60 + t.second) * 10**6 + t.microsecond

class SymTimedelta:
    __slots__ = ('us',)
    def __init__(self, us): self.us = us
    @property
    def __class__(self): return _rdt.timedelta
    @property
    def days(self): return mkint(self.us / US_DAY)
    @property
    def seconds(self): return mkint((self.us % US_DAY) / 10**6)
    @property
    def microseconds(self): return mkint(self.us % 10**6)
    def total_seconds(self): return SymFloat(z3.IntVal(FIN), z3.ToReal(self.us) / 10**6)
    def _o(self, o):
        if isinstance(o, SymTimedelta): return o.us
        if isinstance(o, _rdt.timedelta): return z3.IntVal(td_us(o))
        return None
    def __add__(self, o):
        if isinstance(o, SymDatetime): return o + self
        if isinstance(o, _rdt.datetime): return SymDatetime(z3.IntVal(o.toordinal()), z3.IntVal(tod_us(o))) + self
        z = self._o(o)
        return NotImplemented if z is None else SymTimedelta(self.us + z)
    __radd__ = __add__
    def __sub__(self, o):
        z = self._o(o)
        return NotImplemented if z is None else SymTimedelta(self.us - z)
    def __rsub__(self, o):
        z = self._o(o)
        return NotImplemented if z is None else SymTimedelta(z - self.us)
    def __mul__(self, o):
        if isinstance(o, (SymFloat, float)): raise Unsupported('timedelta * float')
        z = zi(o)
        if z is None: return NotImplemented
        return SymTimedelta(self.us * z)
    __rmul__ = __mul__
    def __neg__(self): return SymTimedelta(-self.us)
    def __abs__(self): return SymTimedelta(z3.If(self.us >= 0, self.us, -self.us))
    def __floordiv__(self, o):
        if isinstance(o, _rdt.timedelta) and not is_sym(o): return mkint(_fdiv(self.us, td_us(o)))
        if builtins.type(o) is int: return SymTimedelta(_fdiv(self.us, o))
        raise Unsupported('timedelta // %r' % builtins.type(o))
    def __truediv__(self, o):
        raise Unsupported('timedelta / x (float result)')
    def _cmp(self, o, f):
        z = self._o(o)
        return NotImplemented if z is None else mkbool(f(self.us, z))
    def __lt__(self, o): return self._cmp(o, lambda a, b: a < b)
    def __le__(self, o): return self._cmp(o, lambda a, b: a <= b)
    def __gt__(self, o): return self._cmp(o, lambda a, b: a > b)
    def __ge__(self, o): return self._cmp(o, lambda a, b: a >= b)
    def __eq__(self, o):
        r = self._cmp(o, lambda a, b: a == b); return False if r is NotImplemented else r
    def __ne__(self, o):
        r = self._cmp(o, lambda a, b: a != b); return True if r is NotImplemented else r
    def __bool__(self): return CUR.branch(self.us != 0)
    def __hash__(self): raise Unsupported('hash of symbolic timedelta')
    def __repr__(self): return 'SymTimedelta(%s)' % self.us
    def __str__(self): return '<symbolic timedelta>'

# ---- Gregorian theory (proleptic, as CPython's datetime): Hinnant's days_from_civil, shifted to date.toordinal()
def dfc(y, m, d):
    y2 = z3.If(m <= 2, y - 1, y); era = y2 / 400; yoe = y2 - era * 400
    mp = z3.If(m > 2, m - 3, m + 9); doy = (153 * mp + 2) / 5 + d - 1
    doe = yoe * 365 + yoe / 4 - yoe / 100 + doy
    return era * 146097 + doe - 719468 + 719163
def leap(y): return z3.And(y % 4 == 0, z3.Or(y % 100 != 0, y % 400 == 0))
def dim(y, m): return z3.If(m == 2, z3.If(leap(y), 29, 28), z3.If(z3.Or(m == 4, m == 6, m == 9, m == 11), 30, 31))
def valid(y, m, d): return z3.And(m >= 1, m <= 12, d >= 1, d <= dim(y, m), y >= 1, y <= 9999)

def dfc_py(y, m, d):
    """the same formulas on python ints (used to validate the theory against datetime.date)"""
    y2 = y - 1 if m <= 2 else y; era = y2 // 400; yoe = y2 - era * 400
    mp = m - 3 if m > 2 else m + 9; doy = (153 * mp + 2) // 5 + d - 1
    doe = yoe * 365 + yoe // 4 - yoe // 100 + doy
    return era * 146097 + doe - 719468 + 719163
def dim_py(y, m):
    lp = y % 4 == 0 and (y % 100 != 0 or y % 400 == 0)
    return (29 if lp else 28) if m == 2 else (30 if m in (4, 6, 9, 11) else 31)

def _lexlt(a, b):
    return z3.Or(a[0] < b[0], z3.And(a[0] == b[0], z3.Or(a[1] < b[1], z3.And(a[1] == b[1], a[2] < b[2]))))

def register_civil(c, ymd, o):
    """theory lemma (redundant, validated by the Gregorian gate): on valid civil dates the ordinal order is the lexicographic
    order of (year, month, day).  Instantiated pairwise for the civil triples that occur on this path; it lets the solver compare
    dates without unfolding the day-count formula."""
    if not LEX_LEMMAS: return
    for t, ot in c.triples[-LEX_MAX:]:
        c.add(_lexlt(t, ymd) == (ot < o), _lexlt(ymd, t) == (o < ot))
    c.triples.append((ymd, o))
LEX_LEMMAS = True
LEX_MAX = 12

class LazyField(SymInt):
    """year / month / day of a SymDatetime; the civil-from-ordinal constraints are only added when the
    field is really used in arithmetic -- datetime(t.year, t.month, t.day) costs nothing."""
    __slots__ = ('t', 'idx')
    def __init__(self, t, idx): self.t = t; self.idx = idx
    @property
    def e(self): return self.t._civil()[self.idx]

class SymDatetime:
    """naive datetime = proleptic ordinal day + microsecond of day (0 <= us < US_DAY)"""
    def __init__(self, o, us = None, isdate = False):
        self.o = o; self.us = z3.IntVal(0) if us is None else us; self._ymd = None; self.isdate = isdate
    @property
    def __class__(self): return _rdt.date if self.isdate else _rdt.datetime
    def _civil(self):
        if self._ymd is None:
            c = CUR; o = z3.simplify(self.o); k = o.get_id()
            hit = c.civil_cache.get(k)
            if hit is not None and hit[0].eq(o):       # the same ordinal term was decomposed before on this path
                self._ymd = hit[1]
            else:
                y, m, d = c.fresh('y'), c.fresh('m'), c.fresh('d')
                c.add(valid(y, m, d)); c.add(dfc(y, m, d) == o)
                self._ymd = (y, m, d); c.civil_cache[k] = (o, self._ymd); register_civil(c, self._ymd, o)
        return self._ymd
    year = property(lambda s: LazyField(s, 0))
    month = property(lambda s: LazyField(s, 1))
    day = property(lambda s: LazyField(s, 2))
    hour = property(lambda s: mkint(s.us / (3600 * 10**6)))
    minute = property(lambda s: mkint((s.us / (60 * 10**6)) % 60))
    second = property(lambda s: mkint((s.us / 10**6) % 60))
    microsecond = property(lambda s: mkint(s.us % 10**6))
    tzinfo = None
    def weekday(self): return mkint((self.o + 6) % 7)
    def isoweekday(self): return mkint((self.o + 6) % 7 + 1)
    def toordinal(self): return mkint(self.o)
    def date(self): return SymDatetime(self.o, None, True)
    def time(self): return SymTime(self.us)
    def replace(self, **kw):
        if kw.get('tzinfo', None) is not None: raise Unsupported('tz-aware symbolic datetime')
        kw.pop('tzinfo', None)
        if not kw: return self
        from . import shims
        f = dict(year = self.year, month = self.month, day = self.day, hour = self.hour, minute = self.minute, second = self.second, microsecond = self.microsecond)
        f.update(kw)
        return shims.shim_datetime(f['year'], f['month'], f['day'], f['hour'], f['minute'], f['second'], f['microsecond'])
    def _norm(self, o, us):
        if self.isdate: raise Unsupported('date +/- intraday')
        return SymDatetime(z3.simplify(o + us / US_DAY), z3.simplify(us % US_DAY))
    def __add__(self, td):
        if isinstance(td, SymTimedelta): return self._norm(self.o, self.us + td.us)
        if isinstance(td, _rdt.timedelta): return self._norm(self.o, self.us + td_us(td))
        return NotImplemented
    __radd__ = __add__
    def __sub__(self, x):
        if isinstance(x, SymTimedelta): return self._norm(self.o, self.us - x.us)
        if isinstance(x, SymDatetime): return SymTimedelta((self.o - x.o) * US_DAY + self.us - x.us)
        if isinstance(x, _rdt.datetime): return SymTimedelta((self.o - x.toordinal()) * US_DAY + self.us - tod_us(x))
        if isinstance(x, _rdt.timedelta): return self._norm(self.o, self.us - td_us(x))
        return NotImplemented
    def __rsub__(self, x):
        if isinstance(x, _rdt.datetime): return SymTimedelta((x.toordinal() - self.o) * US_DAY + tod_us(x) - self.us)
        return NotImplemented
    def _key(self): return self.o * US_DAY + self.us
    def _cmp(self, x, f):
        if isinstance(x, SymDatetime): return mkbool(f(self._key(), x._key()))
        if isinstance(x, _rdt.datetime): return mkbool(f(self._key(), z3.IntVal(x.toordinal() * US_DAY + tod_us(x))))
        return NotImplemented
    def __lt__(self, o): return self._cmp(o, lambda a, b: a < b)
    def __le__(self, o): return self._cmp(o, lambda a, b: a <= b)
    def __gt__(self, o): return self._cmp(o, lambda a, b: a > b)
    def __ge__(self, o): return self._cmp(o, lambda a, b: a >= b)
    def __eq__(self, o):
        r = self._cmp(o, lambda a, b: a == b); return False if r is NotImplemented else r
    def __ne__(self, o):
        r = self._cmp(o, lambda a, b: a != b); return True if r is NotImplemented else r
    def __hash__(self): raise Unsupported('hash of symbolic datetime')
    def __bool__(self): return True
    def __repr__(self): return 'SymDatetime(%s,%s)' % (self.o, self.us)
    def __str__(self): return '<symbolic datetime>'     # only ever used for messages; parsing it back fails loudly
    def __format__(self, spec): return '<symbolic datetime>'
    def strftime(self, fmt):
        """supported: formats made of %Y %m %d %H %M %S %f and literal text -> a template string with symbolic numeric fields"""
        from .symstr import SymStr, Field
        codes = dict(Y = (self.year, 4), m = (self.month, 2), d = (self.day, 2), H = (self.hour, 2), M = (self.minute, 2), S = (self.second, 2), f = (self.microsecond, 6))
        parts = []; i = 0
        while i < len(fmt):
            if fmt[i] == '%' and i + 1 < len(fmt):
                if fmt[i + 1] not in codes: raise Unsupported('strftime code %%%s on a symbolic datetime' % fmt[i + 1])
                v, w = codes[fmt[i + 1]]; parts.append(Field(v, w, fmt[i + 1])); i += 2
            else: parts.append(fmt[i]); i += 1
        return SymStr(parts)
    def isoformat(self, sep = 'T', timespec = 'auto'):
        if timespec != 'auto' or self.isdate: raise Unsupported('isoformat variant')
        return self.strftime('%Y-%m-%d' + sep + '%H:%M:%S') if CUR.branch(self.us % 10**6 == 0) else self.strftime('%Y-%m-%d' + sep + '%H:%M:%S.%f')
    def timestamp(self): raise Unsupported('timestamp of symbolic datetime')

class SymTime:
    """datetime.time proxy: microsecond of day"""
    def __init__(self, us): self.us = us
    @property
    def __class__(self): return _rdt.time
    hour = property(lambda s: mkint(s.us / (3600 * 10**6)))
    minute = property(lambda s: mkint((s.us / (60 * 10**6)) % 60))
    second = property(lambda s: mkint((s.us / 10**6) % 60))
    microsecond = property(lambda s: mkint(s.us % 10**6))
    tzinfo = None
    def _cmp(self, x, f):
        if isinstance(x, SymTime): return mkbool(f(self.us, x.us))
        if isinstance(x, _rdt.time): return mkbool(f(self.us, z3.IntVal(tod_us(x))))
        return NotImplemented
    def __lt__(self, o): return self._cmp(o, lambda a, b: a < b)
    def __le__(self, o): return self._cmp(o, lambda a, b: a <= b)
    def __gt__(self, o): return self._cmp(o, lambda a, b: a > b)
    def __ge__(self, o): return self._cmp(o, lambda a, b: a >= b)
    def __eq__(self, o):
        r = self._cmp(o, lambda a, b: a == b); return False if r is NotImplemented else r
    def __ne__(self, o):
        r = self._cmp(o, lambda a, b: a != b); return True if r is NotImplemented else r
    def __hash__(self): raise Unsupported('hash of symbolic time')
    def __bool__(self): return True

# --------------------------------------------------------------------------- the context: one path of one obligation

class _Values(dict):
    """model used for a concrete replay; a variable the model does not bind (witness taken before it was declared) ends the replay"""
    def __missing__(self, k): raise Infeasible()

class Ctx:
    """mode 'sym': one execution path under a decision prefix.  mode 'conc': concrete replay from `values`."""
    def __init__(self, prefix = (), values = None, fuel = 2000, deadline = None, qtimeout_ms = 8000, seed = 0, known = (), pins = None):
        self.mode = 'conc' if values is not None else 'sym'
        self.values = _Values(values or {})
        self.prefix = list(prefix); self.pos = 0; self.decisions = []
        self.fuel = fuel; self.deadline = deadline
        self.known = set(known); self.pins = pins or {}
        self.vars = {}            # name -> (kind, z3 term(s))
        self.nfresh = 0
        self.failures = []        # concrete mode: labels of failed checks; sym mode: (label, model)
        self.checks = 0; self.queries = 0; self.solver_s = 0.0
        self.covered = set(); self.cover_labels = set()
        self.notes = []; self.civil_cache = {}; self._ext_model = None; self.ext_queries = 0; self.witnesses = {}; self.triples = []; self._model = None; self._dirty = False; self.deferred = []
        if self.mode == 'sym':
            self.solver = z3.Solver()
            self.solver.set('timeout', qtimeout_ms); self.qtimeout_ms = qtimeout_ms
            self.solver.set('random_seed', seed)
    # ---- solver plumbing
    def add(self, *c):
        if self.mode == 'sym': self.solver.add(*c); self._model = None; self._dirty = True      # the cached model may not satisfy the new constraints
    def _check(self, *extra):
        if self.deadline is not None and time.time() > self.deadline: raise Deadline('time budget exhausted')
        t0 = time.time(); self._ext_model = None
        r = self.solver.check(*extra)
        if r == z3.unknown and EXT_SOLVER:
            r = self._external(extra); self.ext_queries += 1
        if r == z3.unknown:                       # last resort: z3 again with a long time slice
            left = 60 if self.deadline is None else max(1, min(60, self.deadline - time.time()))
            self.solver.set('timeout', builtins.int(left * 1000))
            try: r = self.solver.check(*extra)
            finally: self.solver.set('timeout', self.qtimeout_ms)
        self.solver_s += time.time() - t0; self.queries += 1
        self._model = None
        if r == z3.sat and not extra: self._dirty = False
        if r == z3.sat and self._ext_model is None:
            try: self._model = self.solver.model()
            except z3.Z3Exception: self._model = None
        return r
    def _external(self, extra):
        """portfolio: z3 gave up inside its time slice -> hand the same query (SMT-LIB2 dump) to the cvc5 binary"""
        import subprocess, tempfile, os, re
        self.solver.push()
        try:
            if extra: self.solver.add(*extra)
            txt = self.solver.to_smt2()
        finally:
            self.solver.pop()
        names = []
        for name, (kind, t) in self.vars.items():
            names += [str(x) for x in (t if isinstance(t, tuple) else (t,))]
        body = txt.replace('(check-sat)', '')
        q = '(set-option :produce-models true)\n(set-logic ALL)\n' + body + '\n(check-sat)\n'
        if names: q += '(get-value (%s))\n' % ' '.join('|%s|' % n if not re.match(r'^[A-Za-z_][A-Za-z0-9_.!]*$', n) else n for n in names)
        left = EXT_TIMEOUT_S if self.deadline is None else max(1, min(EXT_TIMEOUT_S, self.deadline - time.time()))
        fd, path = tempfile.mkstemp(suffix = '.smt2', prefix = 'symx_'); os.write(fd, q.encode()); os.close(fd)
        try:
            p = subprocess.run([EXT_SOLVER, '--tlimit=%d' % int(left * 1000), path], capture_output = True, text = True, timeout = left + 10)
            out = p.stdout
        except subprocess.TimeoutExpired:
            return z3.unknown
        finally:
            os.remove(path)
        first = out.strip().splitlines()[0].strip() if out.strip() else ''
        if first == 'unsat': return z3.unsat        # (the get-value that follows is rejected after unsat: expected)
        if '(error' in out or '(error' in (p.stderr or ''): return z3.unknown
        if first == 'sat':
            vals = {}
            for mname, mval in re.findall(r'\(\|?([^\s()|]+)\|?\s+(\(-\s*\d+\)|-?\d+|true|false)\)', out):
                vals[mname] = True if mval == 'true' else False if mval == 'false' else builtins.int(mval.replace('(', '').replace(')', '').replace(' ', ''))
            self._ext_model = vals
            return z3.sat
        return z3.unknown
    def fresh(self, name):
        self.nfresh += 1
        return z3.Int('%s!%d' % (name, self.nfresh))
    def branch(self, cond):
        """decide a symbolic condition: returns a python bool, records whether the other side is feasible"""
        cond = z3.simplify(cond)
        if z3.is_true(cond): return True
        if z3.is_false(cond): return False
        if len(self.decisions) >= self.fuel: raise FuelExhausted('more than %d branch decisions on one path' % self.fuel)
        if self.pos < len(self.prefix):
            d = self.prefix[self.pos]; self.decisions.append((d, False)); self._model = None
        else:
            hint = None
            if self._model is not None:
                try:
                    v = self._model.eval(cond, model_completion = True)
                    hint = True if z3.is_true(v) else False if z3.is_false(v) else None
                except z3.Z3Exception:
                    hint = None
            if hint is True:                       # the last model already satisfies cond: only the other side needs a query
                keep = self._model
                rf = self._check(z3.Not(cond))
                if rf == z3.unknown: raise SolverUnknown('branch feasibility unknown: %s' % self.solver.reason_unknown())
                d = True; self.decisions.append((d, rf == z3.sat)); self._model = keep
            elif hint is False:
                keep = self._model
                rt = self._check(cond)
                if rt == z3.unknown: raise SolverUnknown('branch feasibility unknown: %s' % self.solver.reason_unknown())
                if rt == z3.sat: d = True; self.decisions.append((d, True))      # _check stored a model of path /\ cond
                else: d = False; self.decisions.append((d, False)); self._model = keep
            else:
                rt = self._check(cond)
                if rt == z3.unknown: raise SolverUnknown('branch feasibility unknown: %s' % self.solver.reason_unknown())
                if rt == z3.unsat:
                    d = False; self.decisions.append((d, False)); self._model = None
                else:
                    keep = self._model
                    rf = self._check(z3.Not(cond))
                    if rf == z3.unknown: raise SolverUnknown('branch feasibility unknown: %s' % self.solver.reason_unknown())
                    d = True; self.decisions.append((d, rf == z3.sat)); self._model = keep
        self.pos += 1
        self.solver.add(cond if d else z3.Not(cond))
        if self.pos > len(self.prefix): self._dirty = False       # the side taken was just shown feasible together with everything asserted so far
        return d
    def concretize_int(self, e, limit = 32):
        """__index__ of a symbolic int: fork over its feasible values (ascending) when there are few"""
        e = z3.simplify(e)
        if z3.is_int_value(e): return e.as_long()
        for _ in range(limit):
            v = self._min_value(e, [])     # excluded values are already asserted by the False branches
            if self.branch(e == v): return v
        raise Unsupported('concretisation of a symbolic int with more than %d feasible values' % limit)
    def _min_value(self, e, excluded):
        """smallest feasible value of e on this path (unique, hence deterministic under re-execution): bisection with plain checks"""
        r = self._check()
        if r != z3.sat: raise SolverUnknown('concretize: path not known satisfiable')
        m = self.solver.model() if self._ext_model is None else None
        v0 = m.eval(e, model_completion = True).as_long() if m is not None else None
        if v0 is None: raise SolverUnknown('concretize: no model value')
        step = 1; lo = v0                       # invariant: some feasible value <= hi = v0; find lo with no feasible value < lo
        hi = v0
        while True:
            r = self._check(e < lo)
            if r == z3.unknown: raise SolverUnknown('concretize/bisect')
            if r == z3.unsat: break
            hi = self.solver.model().eval(e, model_completion = True).as_long() if self._ext_model is None else lo - 1
            lo = hi - step; step *= 2
        # now: no feasible value < lo, a feasible value == hi (hi >= lo)
        while lo < hi:
            mid = (lo + hi) // 2
            r = self._check(e <= mid)
            if r == z3.unknown: raise SolverUnknown('concretize/bisect')
            if r == z3.sat: hi = min(mid, self.solver.model().eval(e, model_completion = True).as_long() if self._ext_model is None else mid)
            else: lo = mid + 1
        self._model = None
        return lo
    # ---- variables
    def _reg(self, name, kind, terms):
        if name in self.vars: raise AssertionError('duplicate variable ' + name)
        self.vars[name] = (kind, terms)
    def int(self, name, lo = None, hi = None):
        if self.mode == 'conc': return builtins.int(self.values[name])
        v = z3.Int(name); self._reg(name, 'int', v)
        if lo is not None: self.add(v >= lo)
        if hi is not None: self.add(v <= hi)
        return SymInt(v)
    def bool(self, name):
        if self.mode == 'conc': return builtins.bool(self.values[name])
        v = z3.Bool(name); self._reg(name, 'bool', v)
        return SymBool(v)
    def float(self, name, allow = (FIN, NAN, PINF, NINF), halves = 2**20):
        """float variable: kind in `allow`; finite values are multiples of 0.5 with |v| <= halves/2
        (exactly representable, so replay is exact)"""
        if self.mode == 'conc':
            k, h = self.values[name]
            return [h / 2.0, builtins.float('nan'), math.inf, -math.inf][k]       # a fresh NaN object per variable: identity matters to `in` and `is`
        k = z3.Int(name + '.k'); h = z3.Int(name + '.h'); self._reg(name, 'float', (k, h))
        self.add(z3.Or([k == a for a in allow])); self.add(h >= -halves, h <= halves)
        return SymFloat(k, z3.ToReal(h) / 2)
    def choice(self, name, n):
        """a concrete index in range(n), chosen by forking (symbolic selector)"""
        if self.mode == 'conc': return builtins.int(self.values[name])
        v = z3.Int(name); self._reg(name, 'int', v); self.add(v >= 0, v < n)
        if name in self.pins:          # this obligation is one slice of a larger one: the selector is fixed here, the sibling slices cover the rest
            self.add(v == self.pins[name]); return self.pins[name]
        for i in range(n - 1):
            if self.branch(v == i): return i
        return n - 1
    def case(self, e, values):
        """case split: fork on the value of an int expression known to lie in `values`; returns the concrete value.
        Purely a proof-search device (makes each path's arithmetic simpler); all cases are explored."""
        if self.mode == 'conc': return e
        z = z3.simplify(zi(e))
        if z3.is_int_value(z): return z.as_long()
        values = list(values)
        for v in values[:-1]:
            if self.branch(z == v): return v
        self.solver.add(z == values[-1]); self._model = None
        if self._check() != z3.sat: raise Infeasible()
        return values[-1]
    def pick(self, name, options):
        return options[self.choice(name, len(options))]
    def day(self, name, lo = ORD_MIN, hi = ORD_MAX - 1):
        """a datetime at midnight on an arbitrary day with ordinal in [lo, hi]"""
        if self.mode == 'conc': return _rdt.datetime.fromordinal(self.values[name])
        v = z3.Int(name); self._reg(name, 'int', v); self.add(v >= lo, v <= hi)
        return SymDatetime(v)
    def ymd(self, name, lo = ORD_MIN, hi = ORD_MAX - 1):
        """a datetime at midnight given by symbolic civil fields (year, month, day) -- cheaper than day() when the code reads them"""
        if self.mode == 'conc': return _rdt.datetime(*self.values[name])
        y = z3.Int(name + '.y'); m = z3.Int(name + '.m'); d = z3.Int(name + '.d'); self._reg(name, 'ymd', (y, m, d))
        self.add(valid(y, m, d)); o = dfc(y, m, d); self.add(o >= lo, o <= hi)
        t = SymDatetime(o); t._ymd = (y, m, d); self.civil_cache[z3.simplify(o).get_id()] = (z3.simplify(o), t._ymd)
        register_civil(self, t._ymd, o)
        return t
    def day_both(self, name, lo = ORD_MIN, hi = ORD_MAX - 1, near = (0, 0), link = True):
        """a day at midnight carried both as an ordinal variable (weekday arithmetic stays simple) and as civil variables
        (year, month, day) tied to it; the civil fields of the days  t+i, near[0] <= i <= near[1] (|i| <= 27), are pre-seeded as
        if-then-else terms over t's civil fields (neighbour lemma, validated by dates_common.neighbour_gate)."""
        if self.mode == 'conc': return _rdt.datetime.fromordinal(self.values[name])
        o = z3.Int(name); self._reg(name, 'int', o); self.add(o >= lo, o <= hi)
        y, m, d = z3.Int(name + '.y'), z3.Int(name + '.m'), z3.Int(name + '.d')
        # link=False drops the tie between the ordinal and the civil fields: an over-approximation (every weekday is combined with every
        # valid (year, month, day)), so a proof still covers all real dates; a counterexample is rebuilt from the ordinal alone and must replay.
        self.add(valid(y, m, d))
        if link: self.add(dfc(y, m, d) == o)
        else:
            self.add(y >= 1900, y <= 2299)
            self.deferred.append(dfc(y, m, d) == o)      # asserted only when a counterexample has to be made realisable
        t = SymDatetime(o); t._ymd = (y, m, d); self.civil_cache[o.get_id()] = (o, t._ymd)
        if link: register_civil(self, t._ymd, o)
        assert -27 <= near[0] <= 0 <= near[1] <= 27
        dm = dim(y, m)
        py = z3.If(m == 1, y - 1, y); pm = z3.If(m == 1, 12, m - 1); pdm = dim(py, pm)
        ny = z3.If(m == 12, y + 1, y); nm = z3.If(m == 12, 1, m + 1)
        for i in range(near[0], near[1] + 1):
            if i == 0: continue
            oi = z3.simplify(o + i)
            if i > 0: trip = (z3.If(d + i <= dm, y, ny), z3.If(d + i <= dm, m, nm), z3.If(d + i <= dm, d + i, d + i - dm))
            else: trip = (z3.If(d + i >= 1, y, py), z3.If(d + i >= 1, m, pm), z3.If(d + i >= 1, d + i, d + i + pdm))
            self.civil_cache[oi.get_id()] = (oi, tuple(z3.simplify(x) for x in trip))
        return t
    def datetime(self, name, lo = ORD_MIN, hi = ORD_MAX - 1, us_step = 1):
        """arbitrary instant: day ordinal in [lo, hi], microsecond of day a multiple of us_step"""
        if self.mode == 'conc':
            o, us = self.values[name]
            return _rdt.datetime.fromordinal(o) + _rdt.timedelta(microseconds = us)
        o = z3.Int(name + '.o'); us = z3.Int(name + '.us'); self._reg(name, 'datetime', (o, us))
        self.add(o >= lo, o <= hi, us >= 0, us < US_DAY)
        if us_step != 1: self.add(us % us_step == 0)
        return SymDatetime(o, us)
    # ---- assumptions / assertions
    def assume(self, cond):
        if self.mode == 'conc':
            if not cond: raise Infeasible()
            return
        e = z3.simplify(zb(cond))
        if z3.is_true(e): return
        if z3.is_false(e): raise Infeasible()
        self.solver.add(e); self._model = None
        r = self._check()
        if r == z3.unsat: raise Infeasible()
        if r == z3.unknown: raise SolverUnknown('assume: ' + self.solver.reason_unknown())
    def check(self, label, cond):
        """the property assertion: in sym mode ask the solver for a model of path /\\ not cond"""
        self.checks += 1
        if self.mode == 'conc':
            ok = builtins.bool(cond)
            if not ok:
                self.failures.append(label); raise CheckFailed(label)      # as in symbolic mode, the path ends at the first failed check
            return ok
        e = z3.simplify(zb(cond))
        if z3.is_true(e): return True
        keep = self._model
        r = self._check(z3.Not(e))
        if r == z3.unsat:
            self.solver.add(e); self._model = keep; return True      # e is implied by the path: the cached model still fits
        if r == z3.sat and self.deferred:
            # the model lives in an over-approximation: assert the deferred (exact) constraints and ask again
            self.solver.add(*self.deferred); self.deferred = []; self._model = None
            r = self._check(z3.Not(e))
            if r == z3.unsat:
                self.solver.add(e); return True
        if r == z3.unknown:
            self.notes.append('unknown at check %s: %s' % (label, self.solver.reason_unknown()))
            raise SolverUnknown('check %s: %s' % (label, self.solver.reason_unknown()))
        self.failures.append((label, self.model_values()))
        raise CheckFailed(label)
    def fail(self, label, why = ''):
        """unconditional failure on this path (e.g. an unexpected exception)"""
        self.checks += 1
        if self.mode == 'conc':
            self.failures.append(label); raise CheckFailed(label)
        r = self._check()
        if r == z3.sat:
            self.failures.append((label, self.model_values()))
        elif r == z3.unknown:
            raise SolverUnknown('fail %s' % label)
        raise CheckFailed(label)
    def cover(self, label, cond = True):
        """reachability witness: some explored path must be able to satisfy cond here"""
        self.cover_labels.add(label)
        if self.mode == 'conc': return
        if label in self.covered: return
        e = z3.simplify(zb(cond))
        if z3.is_false(e): return
        keep = self._model
        try: self._cover(label, e)
        finally: self._model = keep
    def _cover(self, label, e):
        if z3.is_true(e):
            if self._check() == z3.sat: self.covered.add(label); self.witnesses[label] = self.model_values()
        elif self._check(e) == z3.sat:
            self.covered.add(label); self.witnesses[label] = self.model_values()
    def model_values(self):
        if self._ext_model is not None:
            out = {}
            for name, (kind, t) in self.vars.items():
                try:
                    if kind in ('int', 'bool'): out[name] = self._ext_model[str(t)]
                    else: out[name] = [self._ext_model[str(x)] for x in t]
                except KeyError:
                    raise Unsupported('external model lacks a value for ' + name)
            return out
        m = self.solver.model(); out = {}
        def ev(t):
            v = m.eval(t, model_completion = True)
            if z3.is_int_value(v): return v.as_long()
            if z3.is_true(v): return True
            if z3.is_false(v): return False
            raise Unsupported('model value %r' % v)
        for name, (kind, t) in self.vars.items():
            if kind in ('int', 'bool'): out[name] = ev(t)
            else: out[name] = [ev(x) for x in t]
        return out
    def sample_model(self):
        """any model of the current path condition (for evidence samples)"""
        if self._check() == z3.sat: return self.model_values()
        return None

class CheckFailed(BaseException):
    """a check() found a model; the path stops here (the remaining path is explored via other branches)"""

# --------------------------------------------------------------------------- exploration

def explore(fn, max_paths = 100000, budget_s = None, fuel = 2000, qtimeout_ms = 8000, seed = 0, known = (), stop_on_first = True, pins = None):
    """run harness fn(ctx) over all feasible paths.  Returns a summary dict."""
    global CUR
    t0 = time.time(); deadline = None if budget_s is None else t0 + budget_s
    stack = [[]]
    res = dict(paths = 0, ok_paths = 0, infeasible = 0, queries = 0, solver_s = 0.0, checks = 0, failures = [], inconclusive = [],
               covered = set(), cover_labels = set(), samples = [], complete = True, sym_paths = 0, witnesses = {})
    while stack:
        if res['paths'] >= max_paths:
            res['complete'] = False; res['inconclusive'].append('path budget %d exhausted' % max_paths); break
        if deadline is not None and time.time() > deadline:
            res['complete'] = False; res['inconclusive'].append('time budget exhausted with %d prefixes pending' % len(stack)); break
        prefix = stack.pop()
        c = Ctx(prefix, fuel = fuel, deadline = deadline, qtimeout_ms = qtimeout_ms, seed = seed, known = known, pins = pins); CUR = c
        res['paths'] += 1
        try:
            fn(c)
            if c._dirty:
                if c._check() == z3.unsat: raise Infeasible()       # the path condition itself is unsatisfiable: nothing was proved on it
            res['ok_paths'] += 1
            if len(res['samples']) < 3 and c.vars:
                try:
                    m = c.sample_model()
                    if m is not None: res['samples'].append(dict(decisions = [d for d, _ in c.decisions][:40], model = m))
                except Unsupported: pass
        except CheckFailed: pass
        except Infeasible: res['infeasible'] += 1
        except FuelExhausted as e:
            # unwinding bound hit on a feasible path: candidate non-termination, decided by a concrete replay under an alarm
            res['complete'] = False; res['inconclusive'].append('FuelExhausted: %s' % str(e)[:200])
            try:
                m = c.sample_model()
                if m is not None: c.failures.append(('does-not-terminate-within-the-unwinding-bound', m))
            except Unsupported: pass
        except Unsupported as e:
            res['complete'] = False; res['inconclusive'].append('%s: %s' % (type(e).__name__, str(e)[:200]))
        except Exception as e:
            # the code under test (or the harness) raised on this path: a candidate failure, decided by concrete replay of a path model.
            # If the real code raises too, the property's expected result does not exist -> violation; otherwise the exception is an
            # artefact of running on proxies (C boundary etc.) and the obligation is inconclusive.
            import traceback
            tb = traceback.extract_tb(e.__traceback__)
            if not any('/pyg_base/' in f.filename for f in tb): raise      # raised by the harness itself, not by the code under test: harness bug
            where = '%s:%d' % (tb[-1].filename.split('/')[-1], tb[-1].lineno) if tb else '?'
            label = 'unexpected-exception:%s' % type(e).__name__
            try:
                m = c.sample_model()
            except Unsupported:
                m = None
            res['complete'] = False
            if m is not None: c.failures.append((label, m))
            res['inconclusive'].append('%s at %s: %s' % (label, where, str(e)[:160]))
        finally:
            CUR = None
        if c.decisions or c.vars: res['sym_paths'] += 1
        res['queries'] += c.queries; res['solver_s'] += c.solver_s; res['checks'] += c.checks
        res['covered'] |= c.covered; res['cover_labels'] |= c.cover_labels
        for k, v in c.witnesses.items(): res['witnesses'].setdefault(k, v)
        for f in c.failures: res['failures'].append(f)
        ds = c.decisions
        for i in range(len(prefix), len(ds)):
            d, alt = ds[i]
            if alt: stack.append([x for x, _ in ds[:i]] + [not d])
        if res['failures'] and stop_on_first:
            if stack: res['complete'] = False
            break
    res['wall_s'] = time.time() - t0
    res['covered'] = sorted(res['covered']); res['cover_labels'] = sorted(res['cover_labels'])
    return res

def run_concrete(fn, values):
    """replay: the harness on plain python values.  Returns list of failed check labels."""
    global CUR
    c = Ctx(values = values); CUR = c
    try:
        fn(c)
    except Infeasible:
        return []
    except CheckFailed:
        pass
    finally:
        CUR = None
    return c.failures
