#!/bin/sh
# usage: verify_seed.sh <patch.diff> <demo.py> <out.json>
# confirms in a scratch worktree (outside /repo and /verif) that the seeded change (1) applies, (2) keeps every stable baseline test passing,
# (3) makes the demo fail, while the demo passes on the pristine tree.  Removes the worktree afterwards.
PATCH="$1"; DEMO="$2"; OUT="$3"
WT=$(mktemp -d /tmp/seedverify.XXXXXX); rmdir "$WT"
git -C /repo worktree add --detach "$WT" HEAD -q || exit 2
trap 'git -C /repo worktree remove --force "$WT" >/dev/null 2>&1' EXIT
PYTHONPATH="$WT/src" /venv/bin/python "$DEMO" >"$WT/.demo0" 2>&1; D0=$?
git -C "$WT" apply "$PATCH" || { echo '{"ok": false, "why": "patch does not apply"}' > "$OUT"; exit 1; }
PYTHONPATH="$WT/src" /venv/bin/python "$DEMO" >"$WT/.demo1" 2>&1; D1=$?
(cd "$WT" && PYTHONPATH="$WT/src" /venv/bin/python -m pytest -q -p no:cacheprovider --timeout=900 --continue-on-collection-errors --junitxml="$WT/.junit.xml" tests >/dev/null 2>&1)
/venv/bin/python - "$WT/.junit.xml" "$D0" "$D1" "$OUT" <<'PY'
import sys, json, xml.etree.ElementTree as ET
junit, d0, d1, out = sys.argv[1], int(sys.argv[2]), int(sys.argv[3]), sys.argv[4]
base = set(json.load(open('/root/.vp/BASELINE.json'))['stable_pass'])
passed = set()
for tc in ET.parse(junit).getroot().iter('testcase'):
    if not any(ch.tag in ('failure', 'error', 'skipped') for ch in tc): passed.add('%s::%s' % (tc.get('classname'), tc.get('name')))
missing = sorted(base - passed)
ok = (d0 == 0 and d1 != 0 and not missing)
json.dump(dict(ok = ok, demo_pristine_exit = d0, demo_patched_exit = d1, baseline_tests_now_failing = missing, n_passed = len(passed)), open(out, 'w'), indent = 1)
print(out, 'OK' if ok else 'NOT-OK', d0, d1, missing[:3])
PY
