#!/bin/sh
# usage: tools/run_seed.sh <seed-id e.g. C09A> [tier] [extra bin/check args]: applies the seeded change to /repo, runs the property's check, restores /repo
ID="$1"; TIER="${2:-quick}"; shift; shift 2>/dev/null
PID=$(echo "$ID" | cut -c1-3)
cd /verif
git -C /repo diff --quiet || { echo "/repo has local changes; refusing"; exit 2; }
git -C /repo apply "/verif/seeded/$ID/patch.diff" || exit 2
trap 'git -C /repo checkout -- .' EXIT INT TERM
bin/check "$PID" --tier "$TIER" "$@"
echo "seed $ID exit=$?"
