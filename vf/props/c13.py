"""C13 df_slice keeps exactly the rows in the interval; stitching switches at bounds."""
import datetime as _rdt
from vf.runner import Ob
from vf import minipd
from vf.symx import core, shims, ops as X
from .pandas_common import *
from .dates_common import key

FUNCS = ['pyg_base._pandas:_closed', 'pyg_base._pandas:_df_slice', 'pyg_base._pandas:df_slice', 'pyg_base._pandas:_is_non_decreasing', 'pyg_base._zip:zipper', 'pyg_base._types:is_ts',
         'pyg_base._dates:dt']
BOUNDS = dict(series = 'datetime-indexed Series of 0..3 rows (thorough 4), strictly increasing symbolic stamps anywhere in 1900-2300 (gaps 1..40 days, or 1..60 hours for the time-of-day '
                       'obligations), symbolic values', bounds = 'lb, ub each None or an arbitrary datetime (before / on / between / after the stamps are solver cases), or arbitrary times of day '
                       '(incl. windows that wrap past midnight); all four bracket pairs and the default',
              stitching = '2..3 series and increasing or decreasing symbolic upper-bound lists, n = 1 and n = 2 columns')
OUTSIDE = ['multi-column frames as the object being sliced, stitching into n > 2 columns, df_unslice', 'pd.Index and non-datetime indices as the object being sliced',
           'more than 4 rows']
ASSUMPTIONS = ['pandas is replaced by the minipd model (vf/minipd.py), validated against the real pandas 3.0.6 on an exhaustive small grid at the start of every run (label slices, masks, '
               'time-of-day masks, concat + sort_index ...); counterexamples are replayed on the real pandas']

def h_slice(n, kind, oc):
    def h(c):
        Pm = P()
        ts = sorted_stamps(c, 't', n); vs = [value(c, 'v%d' % i) for i in range(n)]
        s = mkseries(c, vs, ts); snap = list(zip(ts, vs))
        lb = c.datetime('lb', us_step = 3600 * 10**6) if kind in ('both', 'lb') else None
        ub = c.datetime('ub', us_step = 3600 * 10**6) if kind in ('both', 'ub') else None
        l_closed = oc[0] == '['; u_closed = oc[1] == ']'
        if n and lb is not None: c.cover('lb-on-a-stamp', X.Or([key(t) == key(lb) for t in ts]))
        r = Pm.df_slice(s, lb, ub, oc)
        got = rows(r)
        keep = []
        for i, t in enumerate(ts):
            inl = True if lb is None else (key(t) >= key(lb) if l_closed else key(t) > key(lb))
            inu = True if ub is None else (key(t) <= key(ub) if u_closed else key(t) < key(ub))
            if X.And(inl, inu): keep.append(i)                      # forks: one path per membership pattern
        c.check('exactly-the-rows-inside-the-interval', len(got) == len(keep) and all(g[0] == ts[i] for g, i in zip(got, keep)))
        c.check('values-untouched', all(feq(g[1], vs[i]) for g, i in zip(got, keep)))
        c.check('operand-unchanged', len(rows(s)) == n and all(a[0] == b[0] and feq(a[1], b[1]) for a, b in zip(rows(s), snap)))
    return h

def mktime(c, name):
    h = c.int(name, 0, 23)
    if c.mode == 'sym': return core.SymTime(core.zi(h) * 3600 * 10**6), h
    return _rdt.time(h), h

def h_time(n, oc):
    def h(c):
        Pm = P()
        ts = sorted_stamps(c, 't', n, intraday = True); vs = [value(c, 'v%d' % i, nan = False) for i in range(n)]
        s = mkseries(c, vs, ts)
        lb, lh = mktime(c, 'lbh'); ub, uh = mktime(c, 'ubh')
        l_closed = oc[0] == '['; u_closed = oc[1] == ']'
        wrap = lh > uh
        c.cover('wraps-past-midnight', wrap); c.cover('start-equals-end', lh == uh)
        r = Pm.df_slice(s, lb, ub, oc)
        got = rows(r)
        keep = []
        for i, t in enumerate(ts):
            hr = t.hour
            inl = (hr >= lh) if l_closed else (hr > lh)
            inu = (hr <= uh) if u_closed else (hr < uh)
            if X.If(wrap, X.Or(inl, inu), X.And(inl, inu)): keep.append(i)
        c.check('time-of-day-window-keeps-exactly-the-rows-inside', len(got) == len(keep) and all(g[0] == ts[i] and feq(g[1], vs[i]) for g, i in zip(got, keep)))
    return h

Q = 250000                                   # quarter seconds: the resolution of the sub-second variant
def mktime_q(c, name):
    q = c.int(name, 0, 4 * 86400 - 1)
    if c.mode == 'sym': return core.SymTime(core.zi(q) * Q), q * Q
    us = q * Q
    return _rdt.time(us // (3600 * 10**6), (us // (60 * 10**6)) % 60, (us // 10**6) % 60, us % 10**6), us

def h_time_subsecond(n, oc):
    """the time-of-day window at a resolution of a quarter of a second: stamps and bounds anywhere in the day, compared by microsecond of day"""
    def h(c):
        Pm = P()
        td = shims.shim_timedelta if c.mode == 'sym' else _rdt.timedelta
        ts = []; t = c.datetime('t0', us_step = Q)
        for i in range(n):
            if i: t = t + td(microseconds = Q * c.int('t.gap%d' % i, 1, 4 * 86400 * 2))
            ts.append(t)
        vs = [value(c, 'v%d' % i, nan = False) for i in range(n)]
        s = mkseries(c, vs, ts)
        lb, lu = mktime_q(c, 'lbq'); ub, uu = mktime_q(c, 'ubq')
        l_closed = oc[0] == '['; u_closed = oc[1] == ']'
        wrap = lu > uu
        c.cover('wraps-past-midnight', wrap)
        r = Pm.df_slice(s, lb, ub, oc)
        got = rows(r)
        keep = []
        for i, t in enumerate(ts):
            u = ((t.hour * 60 + t.minute) * 60 + t.second) * 10**6 + t.microsecond
            if i == 0: c.cover('stamp-in-the-same-second-as-a-bound-but-not-on-it', X.And(u != lu, u - u % 10**6 == lu - lu % 10**6))
            inl = (u >= lu) if l_closed else (u > lu)
            inu = (u <= uu) if u_closed else (u < uu)
            if X.If(wrap, X.Or(inl, inu), X.And(inl, inu)): keep.append(i)
        c.check('time-of-day-window-keeps-exactly-the-rows-inside-to-the-microsecond', len(got) == len(keep) and all(g[0] == ts[i] and feq(g[1], vs[i]) for g, i in zip(got, keep)))
    return h

def h_stitch(k, n, decreasing):
    """k series on a common index of n stamps, upper bounds ub[0] < ... : stamp t takes its value from the series i with ub[i-1] < t <= ub[i]"""
    def h(c):
        Pm = P()
        ts = sorted_stamps(c, 't', n)
        series = [mkseries(c, [value(c, 's%d.v%d' % (j, i), nan = False) for i in range(n)], ts) for j in range(k)]
        vals = [[v for t, v in rows(s)] for s in series]
        ubs = sorted_stamps(c, 'ub', k, gap_days = 60)
        c.cover('a-bound-on-a-stamp', X.Or([key(u) == key(t) for u in ubs for t in ts])) if n else None
        dfs = list(series[::-1]) if decreasing else list(series)
        bounds = list(ubs[::-1]) if decreasing else list(ubs)
        r = Pm.df_slice(dfs, None, bounds, '(]')
        if c.mode != 'sym' or True:
            pieces = r if isinstance(r, list) else [r]
        got = [x for p in pieces for x in rows(p)]
        want = []
        for i, t in enumerate(ts):
            for j in range(k):
                lo_ok = True if j == 0 else key(t) > key(ubs[j - 1])
                if X.And(lo_ok, key(t) <= key(ubs[j])): want.append((t, vals[j][i])); break
        c.check('every-stamp-takes-its-data-from-the-series-whose-bound-interval-holds-it-at-most-once', len(got) == len(want) and all(g[0] == w[0] and feq(g[1], w[1]) for g, w in zip(got, want)))
    return h

def h_stitch_cols(k, n, decreasing, ncols = 2):
    """with ncols columns, column j of the stitched frame takes its data at stamp t from series i+j, i being the series whose bound interval holds t (NaN beyond the last series)"""
    def h(c):
        from .c12 import frame_rows
        Pm = P()
        ts = sorted_stamps(c, 't', n)
        series = [mkseries(c, [value(c, 's%d.v%d' % (j, i), nan = False) for i in range(n)], ts) for j in range(k)]
        vals = [[v for t, v in rows(s)] for s in series]
        ubs = sorted_stamps(c, 'ub', k, gap_days = 60)
        dfs = list(series[::-1]) if decreasing else list(series)
        bounds = list(ubs[::-1]) if decreasing else list(ubs)
        r = Pm.df_slice(dfs, None, bounds, '(]', n = ncols)
        got, names = frame_rows(r)
        want = []
        for i, t in enumerate(ts):
            for j in range(k):
                lo_ok = True if j == 0 else key(t) > key(ubs[j - 1])
                if X.And(lo_ok, key(t) <= key(ubs[j])): want.append((t, tuple(vals[j + m][i] if j + m < k else float('nan') for m in range(ncols)))); break
        c.check('stitched-frame-has-n-columns', list(names) == list(range(ncols)))
        c.check('column-j-takes-its-data-from-series-i+j', len(got) == len(want) and all(g[0] == w[0] and all(feq(a, b) for a, b in zip(g[1], w[1])) for g, w in zip(got, want)))
    return h

UBS = [_rdt.datetime(2020, 1, 10), _rdt.datetime(2020, 2, 10), _rdt.datetime(2020, 3, 10)]
def h_unslice(k, n, ncols):
    """df_unslice of a stitched frame gives one series per bound, and stitching those again reproduces the frame.  The bounds are concrete (they become dict keys);
    the stamps (anywhere around them) and the values are symbolic"""
    def h(c):
        from .c12 import frame_rows
        Pm = P()
        ts = sorted_stamps(c, 't', n, gap_days = 60)
        series = [mkseries(c, [value(c, 's%d.v%d' % (j, i), nan = False) for i in range(n)], ts) for j in range(k)]
        bounds = list(UBS[:k])
        f = Pm.df_slice(list(series), None, list(bounds), '(]', n = ncols)
        c.cover('a-period-without-rows', X.Or([X.And([X.Not(X.And(key(t) > key(lo_) if lo_ is not None else True, key(t) <= key(hi_))) for t in ts]) for lo_, hi_ in zip([None] + bounds[:-1], bounds)]))
        res = Pm.df_unslice(f, list(bounds))
        c.check('one-series-per-bound', isinstance(res, dict) and list(res.keys()) == bounds)
        again = Pm.df_slice(list(res.values()), None, list(bounds), '(]', n = ncols)
        def cells(x):
            if x is None: return []
            if isinstance(x, (minipd.DataFrame,)) or (not isinstance(x, (minipd.Series,)) and hasattr(x, 'columns')): return frame_rows(x)[0]
            return [(t, (v,)) for t, v in rows(x)]
        a, b = cells(f), cells(again)
        c.check('stitching-the-recovered-series-again-reproduces-the-frame', len(a) == len(b) and all(p[0] == q[0] and len(p[1]) == len(q[1]) and all(feq(u, v) for u, v in zip(p[1], q[1])) for p, q in zip(a, b)))
    return h

def gate_stitch():
    """the real df_slice(list, ub = list, n = 2) under the real pandas vs under the model on a small exhaustive domain"""
    import pandas as rpd, itertools, pyg_base._pandas as RP
    from .c12 import frame_rows
    grid = [_rdt.datetime(2020, 1, 1) + _rdt.timedelta(days = i) for i in range(4)]
    cases = []
    for rowsel in [(0,), (0, 2), (1, 2, 3), (0, 1, 2, 3)]:
        for ub in itertools.permutations(range(4), 2):
            for k in (2, 3):
                ubs = sorted(ub + ((3,) if k == 3 and 3 not in ub else (0,) if k == 3 and 0 not in ub else ())) if k == 3 else sorted(ub)
                if len(set(ubs)) != k: continue
                for dec in (False, True): cases.append((rowsel, ubs, k, dec))
    def run(Pm, mk):
        out = []
        for rowsel, ubs, k, dec in cases:
            ss = [mk([10.0 * j + i for i in rowsel], [grid[i] for i in rowsel]) for j in range(k)]; bs = [grid[u] for u in ubs]
            if dec: ss = ss[::-1]; bs = bs[::-1]
            try:
                f = Pm.df_slice(ss, None, bs, '(]', n = 2); out.append(frame_rows(f))
            except Exception as e: out.append('raised %s' % type(e).__name__); continue
            if not dec:                        # df_unslice and the re-stitching (increasing bounds)
                try:
                    res = Pm.df_unslice(f, list(bs))
                    out.append(([(k, tuple(v for t, v in rows(s_)) + tuple(t for t, v in rows(s_))) for k, s_ in res.items()], [0]))
                    out.append(frame_rows(Pm.df_slice(list(res.values()), None, list(bs), '(]', n = 2)))
                except Exception as e: out.append('raised %s' % type(e).__name__)
        return out
    real = run(RP, lambda v, i: rpd.Series(v, rpd.DatetimeIndex(i), dtype = float))
    Pm = setup_pandas()
    model = run(Pm, lambda v, i: minipd.Series(list(v), list(i)))
    def same(x, y):
        if isinstance(x, str) or isinstance(y, str): return x == y
        (rx, nx), (ry, ny) = x, y
        return list(nx) == list(ny) and len(rx) == len(ry) and all(a[0] == b[0] and all(p == q or (p != p and q != q) for p, q in zip(a[1], b[1])) for a, b in zip(rx, ry))
    if len(real) != len(model): return False, dict(mismatch = 'different number of results', real = len(real), model = len(model))
    for x, y in zip(real, model):
        if not same(x, y): return False, dict(real = str(x)[:300], model = str(y)[:300])
    return True, dict(comparisons = len(real))

def obligations(tier):
    q = tier == 'quick'; N = 3 if q else 4
    S = setup_pandas
    obs = [Ob('gate.minipd-vs-pandas', minipd.gate, engine = 'gate', desc = 'the pandas model equals the real pandas on an exhaustive small grid')]
    for n in range(0, N + 1):
        for kind in ('both', 'lb', 'ub', 'none'):
            for oc in ('()', '(]', '[)', '[]'):
                if kind == 'none' and oc != '(]': continue
                obs.append(Ob('slice.%d.%s.%s' % (n, kind, oc), h_slice(n, kind, oc), setup = S, budget_s = 300 if n < 4 else 1500,
                              desc = 'df_slice of %d rows, bounds %s, brackets %s: exactly the rows inside, values untouched' % (n, kind, oc)))
    for n in range(1, N + 1):
        for oc in ('()', '(]', '[)', '[]'):
            if n in (1, 2): obs.append(Ob('time-of-day.subsecond.%d.%s' % (n, oc), h_time_subsecond(n, oc), setup = S, budget_s = 300, desc = 'time-of-day window with stamps and bounds on a quarter-second grid (%d rows, brackets %s): compared to the microsecond' % (n, oc)))
            obs.append(Ob('time-of-day.%d.%s' % (n, oc), h_time(n, oc), setup = S, budget_s = 300 if n < 4 else 1500, desc = 'time-of-day window (incl. wrap past midnight) on %d rows, brackets %s' % (n, oc)))
    for k in (2, 3):
        for n in range(1, (3 if q else 4)):
            for dec in (False, True):
                obs.append(Ob('stitch.%d-series.%d.%s' % (k, n, 'decreasing' if dec else 'increasing'), h_stitch(k, n, dec), setup = S, budget_s = 300 if q else 1500,
                              desc = 'stitching %d series over %d stamps with %s upper bounds' % (k, n, 'decreasing' if dec else 'increasing')))
    for k in (2, 3):
        for n in range(0, (3 if q else 4)):
            for ncols in (1, 2):
                obs.append(Ob('unslice.%d-bounds.%d-rows.%d-columns' % (k, n, ncols), h_unslice(k, n, ncols), setup = S, budget_s = 300 if q else 1500,
                              desc = 'df_unslice of %d series stitched into %d column(s) over %d stamps: one series per bound, re-stitching reproduces the frame' % (k, ncols, n)))
    obs.append(Ob('gate.stitch-columns-model', gate_stitch, engine = 'gate', desc = 'df_slice(list of series, ub = list, n = 2), df_unslice of the result and the re-stitching under the frame model == under the real pandas on a small exhaustive domain'))
    for k in (2, 3):
        for n in range(1, (3 if q else 4)):
            for dec in (False, True):
                obs.append(Ob('stitch-2-columns.%d-series.%d.%s' % (k, n, 'decreasing' if dec else 'increasing'), h_stitch_cols(k, n, dec), setup = S, budget_s = 300 if q else 1500,
                              desc = 'stitching %d series over %d stamps into 2 columns with %s upper bounds' % (k, n, 'decreasing' if dec else 'increasing')))
    return obs
