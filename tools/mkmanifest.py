#!/usr/bin/env python3
"""regenerates /verif/MANIFEST.json from the table below (single source of truth for what is claimed)"""
import json, os
ROOT = os.path.dirname(os.path.dirname(os.path.abspath(__file__)))
SYMX = 'bounded symbolic execution of the real functions on proxy values; every branch and every assertion decided by z3 (cvc5 as portfolio partner); counterexamples replayed on the unpatched code'
CLAIMED = {
 'C09': dict(engine = 'symx', technique = 'symbolic execution of real dt_bump with z3 (+cvc5 portfolio) over a Gregorian-calendar theory; counterexample replay',
             text = 'Every obligation (n-th weekday law, monotonicity, composition, exact fixed units, month/quarter/year overflow law, round trips, 2- and 3-part compound tenors, named tenors, real tokenizer) is decided by the solver for every start instant of 1900-2300 to the microsecond and every n in [-60,60]; a verdict is "holds for all values in that bound" or a concrete counterexample reproduced on the real code.',
             note = 'Trusted: z3/cvc5, CPython, the proxy classes (validated each run: Gregorian theory vs datetime.date on every ordinal 1770-2430; path models and reachability witnesses replayed on the unpatched code). Stub: int() of a template digit group returns the symbolic n (tokenizer separately run on every concrete n). Outside: time of day for m/q/y units, timezones, timeseries arguments, |n|>60.'),

 'C07': dict(engine = 'symx', technique = 'symbolic execution of real cmp/sort/dictable.sort with z3 over tagged mixed-type values (extended-real floats, NaN identity, Gregorian dates); counterexample replay',
             text = 'cmp laws (range, no raise, antisymmetry, reflexivity, transitivity, int==float, NaN above finite) are decided for all pairs/triples of the mixed-type universe with symbolic contents; sort and dictable.sort (permutation, order under cmp, stability, idempotence, value orders) for all lists/tables up to the stated sizes.',
             note = 'Trusted: z3/cvc5, CPython, proxy classes (validated by concrete replays). Floats are extended reals (no rounding); strings and numpy scalars come from fixed pools chosen by a symbolic index; containers have length <= 2 and depth <= 2; lists <= 4 elements; tables <= 4 rows.'),

 'C10': dict(engine = 'symx', technique = 'symbolic execution of real drange/date_range/dt_bump with z3 (+cvc5) over a Gregorian-calendar theory and a validated rrule contract stub; counterexample replay',
             text = 'For every start instant in 1900-2300 and every span inside the stated bounds (either direction) the solver decides that the returned list starts at t0, each element is the previous one plus the bump, stays within the endpoints and stops only when the next element would pass t1; int n == timedelta(n) == "nd"; business-day bumps list every k-th weekday; equal endpoints give [t0]; wrong-direction and zero bumps raise ValueError.',
             note = 'Trusted: z3/cvc5, CPython, proxy classes; dateutil.rrule is replaced by a contract stub validated against the real rrule on a grid each run (monthly recurrences only from day <= 28). The bump size is a per-path concrete value from a fixed set (n in [-7,7]); list lengths are bounded (see evidence bounds).'),

 'C04': dict(engine = 'symx', technique = 'symbolic execution of real dt/ymd/num2dt/_ymd with z3 over a Gregorian-calendar theory and a symbolic clock; counterexample replay',
             text = 'The non-string spellings (datetime, date, (y,m,d[,h,mi,s]), (d,m,y), yyyymmdd int, ordinal, excel serial, small ints as offsets from today, years) and the month/day overflow law are decided for every instant of 1900-2300, every month in [-36,48] and day in [-400,400]. The string spellings of the property are NOT covered (see not-applicable part in DESIGN.md): the claim is partial.',
             note = 'Trusted: z3/cvc5, CPython, proxy classes, Gregorian theory (validated each run). Outside: every string spelling and the dialect rejection rule (dateutil.parser + regex on a string), numpy/pandas timestamps, float day fractions.'),
 'C05': dict(engine = 'symx', technique = 'symbolic execution of real Calendar code (AST-rewritten _drange.py: guarded lists, symbolic dicts) with z3 over ALL holiday subsets of a window at once; validated rrule stub; counterexample replay',
             text = 'is_bday, adjust f/p/m, add (single-step and indexed path), bdays, add/-add round trip, path agreement, Calendar.drange and the registry are decided for every holiday subset of a 15-day (thorough 22-day) calendar placed anywhere in 1900-2300, every weekend definition, every probe day; verdicts hold for all values in those bounds.',
             note = 'Trusted: z3/cvc5, CPython, proxies, the AST rewrite (identity on concrete values), rrule contract stub and neighbour lemma (validated each run). Assumes no run of more than 4 consecutive non-business days; |n| <= 3 quick / 6 thorough (statement: 40); the Calendar object is built directly in its documented state except in the registry obligation.'),

 'C06': dict(engine = 'symx', technique = 'symbolic execution of real dictable.inc/exc/find_ with z3 over tagged cells (None, ints, extended-real floats with NaN identity, pooled strings); counterexample replay',
             text = 'For every table of 0..3 rows (thorough 4) with symbolic cells and every condition kind (value, lists, None, NaN, regex, dict filter, conjunctions, single callables) the solver decides that inc returns exactly the satisfying rows and exc the others in original order, with all columns, operand unchanged, inc idempotent and inc() the identity; find_<col> returns the unique value or raises.',
             note = 'Trusted: z3/cvc5, CPython, proxies. Floats are extended reals; strings and regexes from pools chosen by symbolic index; find_ uses pooled concrete cells because set() hashes them; conjunctions of two conditions on tables of <= 1 row in quick (2 in thorough).'),

 'C02': dict(engine = 'symx', technique = 'symbolic execution of real dictable.join/xor/_listby/sort/cmp with z3 over tagged key cells (None, ints, extended-real floats, NaN identity, pooled strings); fuel-bounded termination check; counterexample replay',
             text = 'For all pairs of tables up to 2x2 rows (thorough 3x2, 2x3) with symbolic keys, every lcols/rcols spelling and mode, the solver decides that join returns exactly the key-equal (left,right) pairs with multiplicity carrying key and other columns as the mode prescribes, xor the unmatched rows, join and xor partition the left rows, operands stay unchanged, and no path exceeds the unwinding bound (termination).',
             note = 'Trusted: z3/cvc5, CPython, proxies. Floats are extended reals; strings from a pool; payload columns hold concrete row ids. Non-termination = more than 4000 solver-decided branches on one path, confirmed by concrete replay under an alarm. Two key columns only on 1x1 tables in quick.'),

 'C14': dict(engine = 'symx', technique = 'symbolic execution of real eq/in_ with z3 over nested containers of tagged scalars (extended-real floats, NaN identity) plus a concrete numpy/pandas pool selected symbolically; counterexample replay',
             text = 'For all pairs (depth <= 2) and triples (depth <= 1) of values from the universe the solver decides: a boolean is returned and nothing raises, symmetry, reflexivity on structural copies with fresh NaN objects, transitivity, False whenever the container skeletons differ at any depth, agreement with == on NaN-free plain values.',
             note = 'Trusted: z3/cvc5, CPython, proxies, numpy/pandas themselves. numpy arrays, numpy scalars and pandas objects are drawn from a concrete pool of 20 by a symbolic index (their cells are not symbolic); containers have length <= 2 (quick 1).'),

 'C15': dict(engine = 'symx', technique = 'symbolic execution of real tree_items/items_to_tree/tree_update/tree_getitem/table_to_tree/tree_to_table with z3: tree shapes chosen by symbolic selectors, leaf contents symbolic; counterexample replay',
             text = 'For every tree of depth <= 2 (thorough 3) and width <= 2 and every pair (t, u) of such trees (overlaps, leaf-vs-branch conflicts, ignore lists) the solver decides flatten/rebuild inversion, key/value projections, tree_getitem on every path, tree_update == recursive-merge oracle, identities, Dict + dict, and that neither t nor u changes at any depth (same leaf objects); table_to_tree/tree_to_table inversion for 6 patterns with 1..4 wildcards.',
             note = 'Trusted: z3, CPython, proxies. Shapes are enumerated through solver-chosen selectors (a fork per shape), leaves are None / symbolic ints / 2-element lists; keys from {a,b,c}; tables of <= 2 rows.'),

 'C16': dict(engine = 'symx', technique = 'CrossHair (z3-backed symbolic execution) for ulist, symx symbolic execution with z3 for dictattr/Dict key algebra and Dict.__call__ dependency graphs; counterexample replay',
             text = 'ulist construction, + | - & against an ordered-set oracle are "Confirmed over all paths" by CrossHair for all int lists of length <= 3 per side; d - keys, d & keys, d[keys], d[k1,k2], d + other, relabel, attribute access, class preservation and operand immutability are decided for every mapping over a 4-key pool with symbolic values; Dict.__call__ for every dependency graph on 3 (thorough 4) derived keys in every keyword order, incl. cycles and redefinitions.',
             note = 'Trusted: CrossHair 0.0.110, z3, CPython, proxies. Statement says up to 6 derived keys; 3 quick / 4 thorough are explored. ulist elements are ints.'),

 'C01': dict(engine = 'symx', technique = 'symbolic execution of every public dictable operation with z3 from an arbitrary valid table state (one inductive step over the representation invariant) against a list-of-records model; counterexample replay',
             text = 'A dictable has no state beyond its {column: list} mapping, so "any history" is covered by checking each public operation from every valid table of <= 2 rows (thorough 3) x <= 2 columns with symbolic cells: result equals the list-of-records model, is rectangular, len/shape/iteration/d[i][c]==d[c][i] agree, operands keep the very same cell objects, wrong-length assignments raise ValueError and leave the table unchanged, and in-place changes of results never reach operands (two-step aliasing family).',
             note = 'Trusted: z3, CPython, proxies. The representation invariant (all columns are lists of equal length) is assumed for the pre-state and re-established by each obligation, which is what extends the claim to histories of any length within the size bound. Cells are symbolic ints (mixed kinds in the state obligations).'),

 'C11': dict(engine = 'symx', technique = 'symbolic execution of real listby/unlist/groupby/ungroup/pivot/unpivot (and the sort/cmp they use) with z3 over symbolic key cells; counterexample replay',
             text = 'For every table of <= 3 rows (thorough 4) with symbolic int keys (and mixed None/int/float/str keys), one or two key columns: listby has one row per distinct key listing the key\'s values in row order, unlist restores the table stably sorted by key, groupby sizes add up and ungroup restores the multiset, pivot cells hold exactly the z values of their (x, y) (None where absent, aggregated with len/sum), unpivot + dropping None restores the (x, y, z) rows.',
             note = 'Trusted: z3, CPython, proxies. Payload cells are concrete row ids; pivot labels come from a 3-string pool (they are hashed and become column names) that includes names colliding with parts of column names.'),

 'C20': dict(engine = 'symx', technique = 'symbolic execution of real perdictable / join / _join_dictable_with_defaults (and dictable.join/xor/sort below them) with z3 over symbolic keys, values and expiry offsets; counterexample replay',
             text = 'For 2 inputs, each a scalar or a table of <= 2 rows over symbolic distinct int keys (one or two key columns), with or without a default, the solver decides: scalars return f itself; tables give one row per key present in every table input, sorted by key, value = f of that key\'s values, f called exactly once per row; a defaulted input is outer-joined; with cached values and expiries (past / future / None / absent, any key overlap and order) expired cached rows keep their value with no call, all other rows are recomputed exactly once and no stale key appears.',
             note = 'Trusted: z3, CPython, proxies. Keys within one input are assumed distinct; today is the real clock, expiries are symbolic non-zero day offsets from it (expiry == today is outside the statement and not claimed); dict-output functions, renames and 3-4 table inputs are not explored.'),

 'C18': dict(engine = 'symx', technique = 'symbolic execution of the real wrapper classes, getcallargs/call_with_callargs and cache over exec-generated signatures, with solver-chosen call splits and symbolic argument values (z3); counterexample replay',
             text = 'For every signature with 0..3 positional parameters (thorough 4), any trailing defaults, with/without *args and **kwargs, and every valid call (positional/keyword split, supplied defaults, extra positionals and keywords chosen by the solver, values symbolic): each decorator and every stack of two (thorough three) returns what f returns, reports f\'s argspec and does not double wrap; getcallargs agrees with inspect.getcallargs and call_with_callargs round-trips; try_* fall back exactly when f raises; kwargs_support drops exactly the undeclared keywords; a cached function is evaluated once per distinct argument combination over histories of <= 3 calls.',
             note = 'Trusted: z3, CPython, proxies, inspect.getcallargs as oracle. f returns the tuple of its whole binding; cache histories use arguments from {0,1} (equalities are the solver\'s choice); keyword-only parameters, timer/do_if/kwpartial are not explored.'),

 'C19': dict(engine = 'symx', technique = 'symbolic execution of real loops/_item_by_key/_item_by_i, zipper/lens, as_list/as_tuple and waiter (on a real asyncio loop) with z3: structure shapes and completion orders are symbolic selectors, leaves symbolic; counterexample replay',
             text = 'For every nesting of lists/tuples/dicts up to depth 2 (thorough 3) and every companion kind (scalar, same shape, other shapes incl. partially overlapping dict keys), positional or keyword: the lifted function returns the same shape and container types with each leaf bound to its matched companion; library functions are lifted leaf-wise; zipper/lens zip, broadcast and raise exactly per the rule for <= 3 operands of length <= 3; as_list is idempotent; waiter replaces every awaitable by its result under every completion order of <= 3 (thorough 4) awaitables.',
             note = 'Trusted: z3, CPython, asyncio, proxies. Known finding: as_tuple idempotence fails on results that are a one-element tuple holding a list (region excluded from the proof obligation and re-confirmed each run). Statement says depth 4 and 6 awaitables; depth <= 3 and <= 4 awaitables are explored.'),
}
NA = {}
TODO = 'check not built yet in this session (work in progress); will be decided by symbolic execution of the real code as described in DESIGN.md'
props = [json.loads(l) for l in open(os.path.join(ROOT, 'properties.jsonl'))]
checks = []; na = []
for p in props:
    pid = p['id']
    if pid in CLAIMED:
        c = CLAIMED[pid]
        checks.append(dict(property_id = pid, quick_cmd = 'bin/check %s --tier quick' % pid, thorough_cmd = 'bin/check %s --tier thorough' % pid,
                           evidence_file = 'evidence/%s.json' % pid, replay_cmd_template = 'bin/check %s --replay {path}' % pid, engine = c['engine'],
                           level_claimed = dict(category = 'model_checking', text = c['text'], design_ref = 'DESIGN.md section 2, ' + pid),
                           level_note = c['note'], technique = c['technique']))
    else:
        na.append(dict(property_id = pid, reason = NA.get(pid, TODO)))
man = dict(version = 1, setup_cmd = 'sh setup.sh',
           hooks = dict(guard = 'PYG_BASE_VERIF', enable = 'no source hooks are needed: the checks load the real modules from /repo/src and inject proxy-aware names into their module globals at run time inside the check process only',
                        baseline_off_cmd = 'cd /repo && /venv/bin/python -m pytest -ra -q -p no:cacheprovider --timeout=900 --continue-on-collection-errors',
                        source_commits = [], add_only = True),
           engines = [dict(name = 'symx', path = 'vf/symx', serves_properties = sorted(k for k, v in CLAIMED.items() if v['engine'] == 'symx'), kind_free_text = SYMX),
                      dict(name = 'chx', path = 'vf/chx.py', serves_properties = sorted(k for k, v in CLAIMED.items() if k in ('C16', 'C18', 'C19')), kind_free_text = 'CrossHair 0.0.110 (symbolic execution of Python with z3), one process per obligation, counterexamples replayed')],
           checks = checks, not_applicable = na,
           notes = 'Exit codes of bin/check: 0 nothing violated (see evidence for proved / inconclusive counts), 1 reproduced violation (VIOLATION line), 2 harness error (no verdict). Known findings: known_findings.txt.')
json.dump(man, open(os.path.join(ROOT, 'MANIFEST.json'), 'w'), indent = 1)
print('claimed', [c['property_id'] for c in checks], 'n/a', len(na))
