"""C18 decorators are transparent: same results, same signature, no double wrapping."""
import inspect, itertools
from vf.runner import Ob
from vf.symx import core, shims, ops as X

FUNCS = ['pyg_base._decorators:wrapper.__init__', 'pyg_base._decorators:wrapper.__call__', 'pyg_base._decorators:wrapper.fullargspec', 'pyg_base._decorators:try_value.wrapped',
         'pyg_base._decorators:try_back.wrapped', 'pyg_base._decorators:kwargs_support.wrapped', 'pyg_base._cache:cache_func.wrapped', 'pyg_base._cache:_prehash', 'pyg_base._cache:cache',
         'pyg_base._inspect:getargspec', 'pyg_base._inspect:getargs', 'pyg_base._inspect:getcallargs', 'pyg_base._inspect:call_with_callargs', 'pyg_base._inspect:argspec_defaults',
         'pyg_base._loop:loops.wrapped', 'pyg_base._loop:loops._wrapped', 'pyg_base._loop:pd2np.wrapped']
BOUNDS = dict(signatures = 'every signature with 0..3 positional parameters (thorough 4), any number of trailing defaults, with / without *args and **kwargs (functions generated with exec)',
              calls = 'every valid call: the split between positional and keyword passing, which defaulted parameters are supplied, 0..2 extra positionals (*args) and 0..2 extra keywords (**kwargs) '
                      'are solver-chosen selectors; argument values are arbitrary ints',
              stacks = 'single decorators and all stacks of 2 (thorough 3) from try_none, try_zero, try_back, kwargs_support, cache, loops(list), pd2np; cached call histories of <= 3 calls (thorough 4) '
                       'with arguments from {0, 1} (and {-1, -2}, whose hashes collide in CPython)')
OUTSIDE = ['keyword-only parameters', 'arguments that are unequal but collapse under the cache\'s own list -> tuple normalisation', 'container / pandas arguments to loops and pd2np (C19 / C03)',
           'timer, do_if, kwpartial']
ASSUMPTIONS = ['f returns the tuple of everything it was bound to, so equality of results means equality of the whole binding', 'oracles: the bare f and inspect.getcallargs']

def make(npos, ndef, varargs, varkw, raises = False, none_result = False):
    names = ['a', 'b', 'c', 'd'][:npos]
    params = [n if i < npos - ndef else '%s = %d' % (n, 10 * (i + 1)) for i, n in enumerate(names)]
    if varargs: params.append('*args')
    if varkw: params.append('**kw')
    body = 'CALLS.append(1)\n'
    if raises: body += '    if %s: raise ValueError(%s)\n' % ('a is None or a > 5' if npos else 'False', '' if raises == 'no-message' else '"boom"')
    ret = '(%s%s%s)' % (''.join(n + ', ' for n in names), 'args, ' if varargs else '', 'tuple(sorted(kw.items())), ' if varkw else '')
    if none_result: body += '    if %s: return None\n' % ('a == 0' if npos else 'True')
    src = 'def f(%s):\n    %s    return %s\n' % (', '.join(params), body, ret if ret != '()' else '()')
    ns = dict(CALLS = [])
    exec(src, ns)
    return ns['f'], ns['CALLS'], names

def signatures(maxpos):
    for npos in range(maxpos + 1):
        for ndef in range(npos + 1):
            for va in (False, True):
                for vk in (False, True):
                    yield npos, ndef, va, vk

def a_call(c, npos, ndef, va, vk, vals = None):
    """a solver-chosen valid call (args, kwargs) of the signature"""
    names = ['a', 'b', 'c', 'd'][:npos]
    p = c.choice('npositional', npos + 1)                         # how many parameters are passed positionally
    args = [(vals[i] if vals else c.int('v.' + names[i], -9, 9)) for i in range(p)]
    kwargs = {}
    for i in range(p, npos):
        required = i < npos - ndef
        if required or c.choice('give.' + names[i], 2): kwargs[names[i]] = vals[i] if vals else c.int('v.' + names[i], -9, 9)
    if va and p == npos:
        for j in range(c.choice('nextra', 3)): args.append(c.int('x%d' % j, -9, 9))
    if vk:
        for j in range(c.choice('nkw', 3)): kwargs[['k1', 'k2'][j]] = c.int('kw%d' % j, -9, 9)
    return args, kwargs

def same(x, y):
    """equality of (nested tuples of) ints without hashing"""
    if isinstance(x, tuple) or isinstance(y, tuple):
        return isinstance(x, tuple) and isinstance(y, tuple) and len(x) == len(y) and all(same(a, b) for a, b in zip(x, y))
    if x is None or y is None: return x is None and y is None
    if isinstance(x, (str, dict, list)) or isinstance(y, (str, dict, list)):
        if isinstance(x, dict) and isinstance(y, dict): return set(x) == set(y) and all(same(x[k], y[k]) for k in x)
        if isinstance(x, list) and isinstance(y, list): return len(x) == len(y) and all(same(a, b) for a, b in zip(x, y))
        return x == y
    return True if x is y else bool(x == y)

def decorators():
    from pyg_base import try_none, try_zero, try_back, kwargs_support, cache, loops, pd2np
    return dict(try_none = try_none, try_zero = try_zero, try_back = try_back, kwargs_support = kwargs_support, cache = cache, loops = loops(types = list), pd2np = pd2np)

def spec_equal(w, f):
    from pyg_base._inspect import getargspec
    a = getargspec(w); b = inspect.getfullargspec(f)
    return list(a.args) == list(b.args) and a.varargs == b.varargs and a.varkw == b.varkw and tuple(a.defaults or ()) == tuple(b.defaults or ())

def h_transparent(sig, stack):
    def h(c):
        D = decorators()
        f, calls, names = make(*sig)
        w = f
        for d in stack: w = D[d](w)
        c.check('reports-f-s-argument-specification', spec_equal(w, f))
        args, kwargs = a_call(c, *sig)
        want = f(*args, **dict(kwargs))
        got = w(*args, **dict(kwargs))
        c.check('wrapped-function-returns-what-f-returns', same(got, want))
        # wrapping again with the outermost decorator (directly, and through the chain) adds no second layer
        top = D[stack[-1]]
        ww = top(w)
        depth = lambda g, tp: sum(1 for x in chain(g) if type(x) is tp)
        c.check('wrapping-twice-equals-wrapping-once', depth(ww, type(w)) == depth(w, type(w)) and same(ww(*args, **dict(kwargs)), want))
        if len(stack) > 1:
            inner = D[stack[0]](w)
            c.check('re-wrapping-through-a-chain-adds-no-layer', depth(inner, type(D[stack[0]](f))) == 1 and same(inner(*args, **dict(kwargs)), want))
    return h

def chain(g):
    out = []
    from pyg_base._decorators import wrapper
    while isinstance(g, wrapper):
        out.append(g); g = g.function
    return out

def h_callargs(sig):
    def h(c):
        from pyg_base._inspect import getcallargs, call_with_callargs
        f, calls, names = make(*sig)
        args, kwargs = a_call(c, *sig)
        want = inspect.getcallargs(f, *args, **dict(kwargs))
        got = getcallargs(f, *args, **dict(kwargs))
        c.check('getcallargs-agrees-with-inspect', set(got) == set(want) and all(same(tuple(got[k]) if isinstance(got[k], (list, tuple)) else got[k], tuple(want[k]) if isinstance(want[k], (list, tuple)) else want[k]) for k in want))
        c.check('call_with_callargs-round-trip', same(call_with_callargs(f, got), f(*args, **dict(kwargs))))
    return h

def h_try(sig, which):
    def h(c):
        D = decorators()
        f, calls, names = make(*sig, raises = True)
        w = D[which](f)
        args, kwargs = a_call(c, *sig)
        if sig[0] and (args or 'a' in kwargs) and c.choice('first-is-None', 2):          # an explicit None for the first parameter is a value, not "left to its default"
            if args: args[0] = None
            else: kwargs['a'] = None
        try: want = ('ok', f(*args, **dict(kwargs)))
        except ValueError: want = ('raised', None)
        got = w(*args, **dict(kwargs))
        c.cover('f-raises', want[0] == 'raised') if sig[0] else None
        if want[0] == 'ok': c.check('no-fallback-when-f-does-not-raise', same(got, want[1]))
        else:
            fb = dict(try_none = None, try_zero = 0).get(which, 'first')
            first = args[0] if args else kwargs.get('a', 10)            # left to its default (a = 10)
            c.check('fallback-exactly-when-f-raises', same(got, first) if fb == 'first' else same(got, fb))
    return h

def h_try_verbose(sig, value):
    """the documented verbose option only logs: the fallback is returned exactly when f raises, also for exceptions that carry no message"""
    def h(c):
        from pyg_base._decorators import try_value
        import logging; logging.disable(logging.CRITICAL)
        flavour = c.pick('raise', ['boom', 'no-message'])
        f, calls, names = make(*sig, raises = flavour)
        w = try_value(f, value = value, verbose = True)
        args, kwargs = a_call(c, *sig)
        try: want = ('ok', f(*args, **dict(kwargs)))
        except ValueError: want = ('raised', None)
        got = w(*args, **dict(kwargs))
        c.cover('f-raises', want[0] == 'raised')
        c.check('verbose-wrapper-returns-f-s-result-or-the-fallback', same(got, want[1]) if want[0] == 'ok' else same(got, value))
    return h

def h_kwargs_support(sig):
    def h(c):
        D = decorators()
        f, calls, names = make(*sig)
        w = D['kwargs_support'](f)
        args, kwargs = a_call(c, *sig)
        junk = dict(zz = c.int('junk', -9, 9), yy = 1)
        got = w(*args, **dict(kwargs), **junk)
        c.check('ignores-exactly-the-undeclared-keywords', same(got, f(*args, **dict(kwargs))))
    return h

def h_cache(sig, ncalls, none_result, pool = (0, 1)):
    pool = list(pool)
    def h(c):
        from pyg_base import cache
        f, calls, names = make(*sig, none_result = none_result)
        w = cache(f)
        seen = []; nexp = 0
        for i in range(ncalls):
            npos, ndef, va, vk = sig
            p = c.choice('c%d.npos' % i, npos + 1)
            args = [c.pick('c%d.%s' % (i, names[j]), pool) for j in range(p)]
            kwargs = {names[j]: c.pick('c%d.%s' % (i, names[j]), pool) for j in range(p, npos) if j < npos - ndef or c.choice('c%d.give.%s' % (i, names[j]), 2)}
            if vk and c.choice('c%d.kw' % i, 2): kwargs['k1'] = c.pick('c%d.k1' % i, [0, 1])
            if len(kwargs) >= 2 and c.choice('c%d.reversed' % i, 2): kwargs = dict(reversed(list(kwargs.items())))      # the same keywords written in another order are the same combination
            key = (tuple(args), tuple(sorted(kwargs.items())))
            before = len(calls)
            got = w(*args, **dict(kwargs))
            prior = [r for k, r in seen if k == key]
            if prior:
                c.check('repeated-call-is-not-re-evaluated', len(calls) == before)
                c.check('repeated-call-returns-the-first-result', same(got, prior[0]))
            else:
                c.check('new-argument-combination-is-evaluated-once', len(calls) == before + 1)
                seen.append((key, got))
            c.check('result-is-f-s-result', same(got, make(*sig, none_result = none_result)[0](*args, **dict(kwargs))))
    return h

def h_group(hs):
    def h(c):
        k = c.choice('member', len(hs))
        hs[k](c)
    return h

def obligations(tier):
    q = tier == 'quick'; MP = 3 if q else 4
    obs = []
    names = ['try_none', 'try_zero', 'try_back', 'kwargs_support', 'cache', 'loops', 'pd2np']
    def sid(s): return '%d.%d%s%s' % (s[0], s[1], 'A' if s[2] else '', 'K' if s[3] else '')
    sigs = list(signatures(MP))
    for s in sigs:
        ds = [d for d in names if not (d in ('loops', 'pd2np', 'try_back') and s[0] == 0 and not s[2])]      # those act on the first argument
        obs.append(Ob('transparent.%s' % sid(s), h_group([h_transparent(s, [d]) for d in ds]), budget_s = 300,
                      desc = 'each of %s is transparent for signature %s: same result on every valid call, same argspec, wrapping twice == once' % (ds, sid(s))))
        obs.append(Ob('callargs.%s' % sid(s), h_callargs(s), budget_s = 120, desc = 'getcallargs == inspect.getcallargs and call_with_callargs round trip, signature %s' % sid(s)))
        if s[0]: obs.append(Ob('try.%s' % sid(s), h_group([h_try(s, d) for d in ['try_none', 'try_zero', 'try_back']]), budget_s = 300, desc = 'try_none / try_zero / try_back return their fallback exactly when f raises, signature %s' % sid(s)))
        if not s[3]: obs.append(Ob('kwargs_support.%s' % sid(s), h_kwargs_support(s), budget_s = 120, desc = 'kwargs_support drops exactly the undeclared keywords, signature %s' % sid(s)))
    for sg in [(1, 0, False, False), (2, 1, False, True)]:
        for value in (None, 0):
            obs.append(Ob('try.verbose.%s.%s' % (sid(sg), value), h_try_verbose(sg, value), budget_s = 120, desc = 'try_value(f, value = %s, verbose = True): fallback exactly when f raises (with or without a message), signature %s' % (value, sid(sg))))
    ssigs = [(2, 1, False, False), (2, 1, True, True)] if q else [(2, 1, False, False), (2, 1, True, True), (1, 0, False, True), (3, 2, True, False)]
    for d0 in names:
        for s in ssigs:
            obs.append(Ob('stack2.%s.%s' % (d0, sid(s)), h_group([h_transparent(s, [d1, d0]) for d1 in names if d1 != d0]), budget_s = 300,
                          desc = 'every stack of two decorators with %s outermost is transparent and re-wrapping adds no layer, signature %s' % (d0, sid(s))))
            if not q:
                for d1 in names:
                    if d1 != d0:
                        obs.append(Ob('stack3.%s.%s.%s' % (d0, d1, sid(s)), h_group([h_transparent(s, [d2, d1, d0]) for d2 in names if d2 not in (d0, d1)]), budget_s = 600,
                                      desc = 'every stack of three decorators %s > %s > * is transparent, signature %s' % (d0, d1, sid(s))))
    for s in [(1, 0, False, False), (2, 1, False, False), (2, 1, False, True), (1, 1, True, True)]:
        for nr in (False, True):
            obs.append(Ob('cache.%s.%s' % (sid(s), 'none-results' if nr else 'plain'), h_cache(s, (2 if s[3] else 3) if q else (3 if s[3] else 4), nr), budget_s = 300 if q else 2400,
                          desc = 'cached f is evaluated once per distinct combination of positional and keyword arguments as passed (%s)' % ('f returns None for some arguments' if nr else 'plain')))
    for s_ in [(1, 0, False, False), (2, 1, False, False)]:
        obs.append(Ob('cache.%s.colliding-hashes' % sid(s_), h_cache(s_, 2, False, (-1, -2)), budget_s = 300, desc = 'cached f with arguments -1 and -2 (equal hash() in CPython, different values): still one evaluation per distinct combination'))
    return obs
