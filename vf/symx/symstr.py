"""template strings: a string of fixed *shape* whose numeric fields are symbolic.

A SymStr is a sequence of parts; a part is a literal python str or a Field(value = SymInt/int, width) rendered as a zero-padded decimal of
exactly `width` characters (the harness forks on the number of digits when it wants unpadded fields).  Everything that only depends on
character classes (the library's regexes test digits / separators / letters) is evaluated on a *representative* string in which every
field digit is '0'; slicing is supported on field boundaries; int() of a pure field gives the symbolic value back.  Any other str method
raises Unsupported, so nothing is silently computed on the representative."""
import re, builtins
from . import core
from .core import Unsupported, SymInt

class Field:
    __slots__ = ('v', 'w', 'name')
    def __init__(self, v, w, name = ''): self.v = v; self.w = w; self.name = name

class SymStr:
    def __init__(self, parts, kind = None, meta = None):
        out = []
        for p in parts:
            if isinstance(p, str):
                if not p: continue
                if out and isinstance(out[-1], str): out[-1] += p
                else: out.append(p)
            else: out.append(p)
        self.parts = out; self.kind = kind; self.meta = meta or {}
    @property
    def __class__(self): return str
    def rep(self):
        return ''.join(p if isinstance(p, str) else '0' * p.w for p in self.parts)
    def __len__(self): return len(self.rep())
    def __bool__(self): return len(self.rep()) > 0
    def __hash__(self): raise Unsupported('hash of a template string')
    def __eq__(self, o):
        if isinstance(o, str) and not isinstance(o, SymStr):
            r = self.rep()
            if len(o) != len(r): return False
            # equal only if the literal characters agree and the fields spell the given digits
            pos = 0; conds = []
            for p in self.parts:
                n = len(p) if isinstance(p, str) else p.w
                seg = o[pos:pos + n]; pos += n
                if isinstance(p, str):
                    if seg != p: return False
                else:
                    if not seg.isdigit(): return False
                    conds.append(p.v == int(seg))
            from . import ops as X
            return X.And(conds + [True])
        if isinstance(o, SymStr): raise Unsupported('comparison of two template strings')
        return False
    def __ne__(self, o): return core.sym_not(self.__eq__(o))
    def _same(self, parts): return SymStr(parts, self.kind, self.meta)
    def lower(self): return self._same([p.lower() if isinstance(p, str) else p for p in self.parts])
    def upper(self): return self._same([p.upper() if isinstance(p, str) else p for p in self.parts])
    def strip(self, chars = None):
        parts = list(self.parts)
        if parts and isinstance(parts[0], str): parts[0] = parts[0].lstrip(chars)
        if parts and isinstance(parts[-1], str): parts[-1] = parts[-1].rstrip(chars)
        return self._same(parts)
    def replace(self, old, new, count = -1):
        if not isinstance(old, str) or any(ch.isdigit() for ch in old) or any(ch.isdigit() for ch in new): raise Unsupported('template replace touching digits')
        if len(old) > 1 and old in self.rep(): raise Unsupported('template replace of a multi-character pattern that occurs')
        return self._same([p.replace(old, new) if isinstance(p, str) else p for p in self.parts])
    def startswith(self, s): return self.rep().startswith(s) if not any(ch.isdigit() for ch in s) else self[:len(s)] == s
    def endswith(self, s):
        if any(ch.isdigit() for ch in s): raise Unsupported('endswith digits')
        return self.rep().endswith(s)
    def __contains__(self, s):
        if isinstance(s, str) and not any(ch.isdigit() for ch in s): return s in self.rep()
        raise Unsupported('substring test involving digits')
    def __getitem__(self, item):
        if not isinstance(item, slice) or item.step not in (None, 1): raise Unsupported('template indexing')
        n = len(self.rep()); lo, hi, _ = item.indices(n)
        out = []; pos = 0
        for p in self.parts:
            ln = len(p) if isinstance(p, str) else p.w
            a, b = max(lo, pos), min(hi, pos + ln)
            if a < b:
                if isinstance(p, str): out.append(p[a - pos:b - pos])
                elif a == pos and b == pos + ln: out.append(p)
                else: raise Unsupported('template slice cuts through a numeric field')
            pos += ln
        return self._same(out)
    def __add__(self, o):
        if isinstance(o, SymStr): return SymStr(self.parts + o.parts)
        if isinstance(o, str): return SymStr(self.parts + [o], self.kind, self.meta)
        return NotImplemented
    def __radd__(self, o):
        if isinstance(o, str): return SymStr([o] + self.parts, self.kind, self.meta)
        return NotImplemented
    def split(self, sep = None, maxsplit = -1): raise Unsupported('template split')
    def __iter__(self): raise Unsupported('iteration over a template string')
    def __str__(self): return '<template %s>' % self.rep()
    __repr__ = __str__
    def as_int(self):
        """int() of a template consisting of numeric fields only (leading sign allowed as a literal)"""
        parts = [p for p in self.parts]
        sign = 1
        if parts and isinstance(parts[0], str) and parts[0] in '+-': sign = -1 if parts[0] == '-' else 1; parts = parts[1:]
        if len(parts) == 1 and isinstance(parts[0], Field): return sign * parts[0].v
        if parts and all(isinstance(p, Field) for p in parts):
            v = 0
            for p in parts: v = v * (10 ** p.w) + p.v
            return sign * v
        raise Unsupported('int() of a template that is not a pure number: %s' % self.rep())

class Regex:
    """wrapper for a module-level compiled pattern: on a template string the search is evaluated on the representative (sound for
    patterns that only test character classes, which is checked: the pattern must not contain literal digits)"""
    def __init__(self, pat):
        self.pat = pat
        self.shape_only = not re.search(r'(?<![\\{,\[0-9-])[0-9](?![0-9]*[}\]])', re.sub(r'\[[^\]]*\]|\{[^}]*\}', '', pat.pattern))
    def __getattr__(self, k): return getattr(self.pat, k)
    def search(self, s, *a):
        if isinstance(s, SymStr):
            if not self.shape_only: raise Unsupported('regex with literal digits on a template string')
            m = self.pat.search(s.rep(), *a)
            return None if m is None else _Match(m, s)
        return self.pat.search(s, *a)
    def match(self, s, *a):
        if isinstance(s, SymStr):
            if not self.shape_only: raise Unsupported('regex with literal digits on a template string')
            m = self.pat.match(s.rep(), *a)
            return None if m is None else _Match(m, s)
        return self.pat.match(s, *a)
class _Match:
    def __init__(self, m, s): self.m = m; self.s = s
    def group(self, *a):
        if a and a != (0,): raise Unsupported('regex groups on a template string')
        return self.s[self.m.start():self.m.end()]
    def start(self): return self.m.start()
    def end(self): return self.m.end()
