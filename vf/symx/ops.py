"""dual-mode operators for oracles: work on proxies (building z3 terms, no forking) and on plain python values."""
import z3, builtins, datetime as _rdt
from . import core
from .core import SymBool, SymInt, SymFloat, SymDatetime, SymTimedelta, zi, zb, mkbool, mkint, is_sym

def _anysym(*a): return any(is_sym(x) or z3.is_expr(x) for x in a)

def And(*a):
    if len(a) == 1 and isinstance(a[0], (list, tuple)): a = tuple(a[0])
    if not _anysym(*a): return all(a)
    return mkbool(z3.And([zb(x) for x in a]))
def Or(*a):
    if len(a) == 1 and isinstance(a[0], (list, tuple)): a = tuple(a[0])
    if not _anysym(*a): return any(a)
    return mkbool(z3.Or([zb(x) for x in a]))
def Not(a):
    if not _anysym(a): return not a
    return mkbool(z3.Not(zb(a)))
def Implies(a, b):
    if not _anysym(a, b): return (not a) or bool(b)
    return mkbool(z3.Implies(zb(a), zb(b)))
def Iff(a, b):
    if not _anysym(a, b): return bool(a) == bool(b)
    return mkbool(zb(a) == zb(b))
def If(c, a, b):
    """if-then-else on ints / bools / datetimes without forking"""
    if not _anysym(c): return a if c else b
    c = zb(c)
    if isinstance(a, (SymDatetime, _rdt.datetime)) or isinstance(b, (SymDatetime, _rdt.datetime)):
        a, b = todt(a), todt(b)
        return SymDatetime(z3.If(c, a.o, b.o), z3.If(c, a.us, b.us))
    if isinstance(a, (SymFloat, float)) or isinstance(b, (SymFloat, float)):
        a, b = core.tofloat(a), core.tofloat(b)
        return SymFloat(z3.If(c, a.kind, b.kind), z3.If(c, a.val, b.val))
    if isinstance(a, (SymBool, bool)) and isinstance(b, (SymBool, bool)):
        return mkbool(z3.If(c, zb(a), zb(b)))
    return mkint(z3.If(c, zi(a), zi(b)))
def Sum(xs):
    xs = list(xs)
    if not _anysym(*xs): return builtins.sum(int(x) for x in xs)
    return mkint(z3.Sum([zi(x) for x in xs])) if xs else 0
def Min(a, b): return If(a <= b, a, b)
def Max(a, b): return If(a >= b, a, b)
def Eq(a, b):
    """value equality without forking (ints, bools, datetimes)"""
    if not _anysym(a, b): return a == b
    r = a == b
    return r
def todt(x):
    if isinstance(x, SymDatetime): return x
    return SymDatetime(z3.IntVal(x.toordinal()), z3.IntVal(core.tod_us(x)))
def ordinal(t):
    """day ordinal of a datetime (proxy or real)"""
    return t.toordinal()
def us_of_day(t):
    if isinstance(t, SymDatetime): return mkint(t.us)
    return core.tod_us(t)
def weekday(t): return t.weekday()
def is_concrete(): return core.CUR is None or core.CUR.mode == 'conc'
