"""C09 dt_bump adds business days, calendar units and compound tenors exactly."""
import datetime as _rdt, itertools
from vf.runner import Ob
from vf.symx import core, shims, ops as X
from vf.symx.core import US_DAY, ORD_MIN, ORD_MAX
from .dates_common import *

FUNCS = ['pyg_base._dates:dt_bump', 'pyg_base._dates:_ymd', 'pyg_base._dates:ym', 'pyg_base._dates:month', 'pyg_base._dates:is_period',
         'pyg_base._as_list:as_list']
BOUNDS = dict(start = 'every instant of 1900-01-01 .. 2299-12-31 to the microsecond (single parts are proved on 1770..2430 so that compounds compose)',
              n = '[-60, 60] symbolic; the digit group of the tenor is a template whose int() is the symbolic n',
              tokenizer = 'thorough: every concrete n in [-60,60] x 9 units x sign spellings through the real regex tokenizer',
              compounds = 'all 81 two-part unit pairs (quick: 27 sampled by seed + all containing b), all 729 three-part triples (thorough)')
OUTSIDE = ['time-of-day behaviour of m/q/y bumps (statement: claimed at midnight only)', 'timezone bumps', 'timeseries arguments', '|n| > 60',
           'relativedelta bumps']
ASSUMPTIONS = ['stub: int() of the template digit group returns the symbolic n (the tokenizer itself is run on every concrete n in the thorough tier)',
               'datetime/timedelta are replaced by proxies over the Gregorian theory (validated against CPython date on all ordinals of 1770..2430 each run)',
               'compound tenors are compared with sequential single-part calls of the real dt_bump; single parts are proved against independent oracles on the widened range']

UNIT_US = dict(d = US_DAY, w = 7 * US_DAY, h = 3600 * 10**6, n = 60 * 10**6, s = 10**6)
UNITS = 'dwbmqyhns'
MONTHLY = 'mqy'

def _D():
    import pyg_base._dates as D
    return D

def start(c, midnight = False, lo = ORD_MIN, hi = ORD_MAX - 1, name = 't'):
    return c.ymd(name, lo, hi) if midnight else c.datetime(name, lo, hi)

# ---- single parts against oracles

def h_b_nth(c):
    D = _D(); t = start(c, lo = WIDE_LO, hi = WIDE_HI); n = c.int('n', -60, 60)
    r = D.dt_bump(t, tenor(c, n, 'b'))
    o = X.ordinal(t); ro = X.ordinal(r)
    c.cover('weekend-start', t.weekday() > 4); c.cover('negative-n', n < 0); c.cover('weekday-start', t.weekday() <= 4)
    c.check('lands-on-weekday', r.weekday() < 5)
    c.check('nth-weekday', wdcount(ro) - wdcount(roll(o)) == n)
    c.check('time-of-day-kept', X.us_of_day(r) == X.us_of_day(t))

def _same_weekend_later_clock(t1, t2):
    """known finding region: the earlier start is a weekend day, both roll to the same Monday (the later start is in the
    same weekend or is that Monday) and the earlier one has the later time of day"""
    o1, o2 = X.ordinal(t1), X.ordinal(t2)
    return X.And(t1.weekday() > 4, roll(o1) == roll(o2), X.us_of_day(t1) > X.us_of_day(t2))
def cls_monotone(model, failed):
    t1 = _rdt.datetime.fromordinal(model['t1'][0]) + _rdt.timedelta(microseconds = model['t1'][1])
    t2 = _rdt.datetime.fromordinal(model['t2'][0]) + _rdt.timedelta(microseconds = model['t2'][1])
    return 'b-monotone-weekend-intraday' if _same_weekend_later_clock(t1, t2) else None

def h_b_monotone(inside):
  def h(c):
    D = _D(); t1 = start(c, name = 't1'); t2 = start(c, name = 't2'); n = c.int('n', -60, 60)
    c.assume(key(t1) <= key(t2))
    reg = _same_weekend_later_clock(t1, t2)
    c.assume(reg if inside else X.Not(reg))
    c.case(t1.weekday(), range(7)); c.case(t2.weekday(), range(7)); c.case(n % 5, range(5))      # proof-search case split only
    r1 = D.dt_bump(t1, tenor(c, n, 'b')); r2 = D.dt_bump(t2, tenor(c, n, 'b'))
    c.cover('different-days', X.ordinal(t1) < X.ordinal(t2))
    c.check('monotone-in-t', key(r1) <= key(r2))
  return h

def h_b_compose(c):
    D = _D(); t = start(c); a = c.int('a', -60, 60); b = c.int('b', -60, 60)
    c.assume(t.weekday() < 5); c.assume(X.Or(X.And(a >= 0, b >= 0), X.And(a <= 0, b <= 0)))
    c.case(t.weekday(), range(5)); c.case(a % 5, range(5)); c.case(b % 5, range(5))      # proof-search case split only
    r1 = D.dt_bump(D.dt_bump(t, tenor(c, a, 'b')), tenor(c, b, 'b'))
    r2 = D.dt_bump(t, tenor(c, a + b, 'b'))
    c.cover('both-negative', X.And(a < 0, b < 0))
    c.check('same-sign-bumps-compose', key(r1) == key(r2))

def h_fixed(unit):
    def h(c):
        D = _D(); t = start(c, lo = WIDE_LO, hi = WIDE_HI); n = c.int('n', -60, 60)
        r = D.dt_bump(t, tenor(c, n, unit))
        c.cover('negative-n', n < 0)
        c.check('adds-exactly', key(r) == key(t) + n * UNIT_US[unit])
    return h

def h_int(c):
    D = _D(); t = start(c); n = c.int('n', -60, 60)
    r = D.dt_bump(t, n)
    c.cover('negative-n', n < 0)
    c.check('int-adds-days', key(r) == key(t) + n * US_DAY)

def h_timedelta(c):
    D = _D(); t = start(c); d = c.int('days', -60, 60); s = c.int('secs', 0, 86399); us = c.int('us', 0, 999999)
    td = (shims.shim_timedelta if c.mode == 'sym' else _rdt.timedelta)(days = d, seconds = s, microseconds = us)
    r = D.dt_bump(t, td)
    c.cover('negative-days', d < 0)
    c.check('timedelta-adds-exactly', key(r) == key(t) + d * US_DAY + s * 10**6 + us)

def h_monthly(unit):
    mult = dict(m = 1, q = 3, y = 12)[unit]
    def h(c):
        D = _D(); t = start(c, midnight = True, lo = WIDE_LO, hi = WIDE_HI); k = c.int('n', -60, 60)
        y, m, d = civil(c, t)
        want, overflow, wrap = month_bump_oracle(y, m, d, k * mult)
        c.cover('overflow', overflow); c.cover('negative-n', k < 0); c.cover('year-wrap', wrap); c.cover('overflow-feb', X.And(overflow, d == 29))
        r = D.dt_bump(t, tenor(c, k, unit))
        c.check('midnight', X.us_of_day(r) == 0)
        c.check('day-kept-or-excess-rolled', X.ordinal(r) == want)
    return h

def h_named(name, n):
    def h(c):
        D = _D(); t = start(c)
        r = D.dt_bump(t, name)
        c.check('named-tenor', X.And(r.weekday() < 5, wdcount(X.ordinal(r)) - wdcount(roll(X.ordinal(t))) == n, X.us_of_day(r) == X.us_of_day(t)))
    return h

# ---- round trips

def h_roundtrip(unit):
    def h(c):
        D = _D(); mid = unit in MONTHLY; t = start(c, midnight = mid); n = c.int('n', -60, 60)
        if unit == 'b': c.assume(t.weekday() < 5)
        if mid:
            c.assume(t.day <= 28)
        if unit == 'b':
            c.case(t.weekday(), range(5)); c.case(n % 5, range(5))
        r1 = D.dt_bump(t, tenor(c, n, unit))
        if mid:      # cut point: the forward bump keeps the day (day <= 28); proved here, then used as a lemma for the way back
            y1, m1 = month_target(t.year, t.month, n * dict(m = 1, q = 3, y = 12)[unit])
            c.check('forward-keeps-day', X.And(r1.year == y1, r1.month == m1, r1.day == t.day))
        r = D.dt_bump(r1, tenor(c, -n, unit))
        c.cover('negative-n', n < 0)
        c.check('plus-then-minus-returns', key(r) == key(t))
        r2 = D.dt_bump(t, tenor(c, n, unit) + tenor(c, -n, unit))
        c.check('plus-then-minus-in-one-tenor', key(r2) == key(t))
    return h

# ---- compound tenors: left to right

def _ok_combo(units):
    """month-based parts are claimed from midnight only: everything before them must keep midnight"""
    for i, u in enumerate(units):
        if u in MONTHLY and any(v in 'hns' for v in units[:i]): return False
    return True

def h_compound(units):
    def h(c):
        D = _D()
        mid = any(u in MONTHLY for u in units)
        t = start(c, midnight = mid)
        ns = [c.int('n%d' % i, -60, 60) for i in range(len(units))]
        whole = ''.join(tenor(c, n, u) for n, u in zip(ns, units))
        c.cover('mixed-signs', X.And(ns[0] > 0, ns[-1] < 0)); c.cover('weekend-start', t.weekday() > 4)
        r = D.dt_bump(t, whole)
        s = t
        for n, u in zip(ns, units): s = D.dt_bump(s, tenor(c, n, u))
        c.check('parts-apply-left-to-right', key(r) == key(s))
        # the same parts given as separate arguments
        r3 = D.dt_bump(t, *[tenor(c, n, u) for n, u in zip(ns, units)])
        c.check('separate-arguments-agree', key(r3) == key(s))
    return h

# ---- the real tokenizer on every concrete n

def h_tokenizer(unit, spell, ns = range(-60, 61)):
    def h(c):
        D = _D(); t = start(c, midnight = unit in MONTHLY)
        for n in ns:
            if spell == 'plus' and n < 0: continue
            txt = ('+%d' % n if spell == 'plus' else str(n)) + (unit.upper() if spell == 'upper' else unit)
            r = D.dt_bump(t, txt)
            if unit in UNIT_US: c.check('tok-fixed', key(r) == key(t) + n * UNIT_US[unit])
            elif unit == 'b':
                c.check('tok-b', X.And(r.weekday() < 5, wdcount(X.ordinal(r)) - wdcount(roll(X.ordinal(t))) == n, X.us_of_day(r) == X.us_of_day(t)))
            else:
                y, m, d = civil(c, t)
                c.check('tok-monthly', X.ordinal(r) == month_bump_oracle(y, m, d, n * dict(m = 1, q = 3, y = 12)[unit])[0])
    return h

def obligations(tier):
    import random, os
    quick = tier == 'quick'
    S = setup_dates
    obs = [Ob('gate.gregorian-theory', theory_gate, engine = 'gate', desc = 'Gregorian theory vs CPython date on all ordinals 1770..2430')]
    obs += [Ob('b.nth-weekday', h_b_nth, setup = S, desc = "dt_bump(t,'nb'): lands on a weekday, is the n-th weekday from roll(t), keeps time of day"),
            Ob('b.monotone', h_b_monotone(False), setup = S, classify = cls_monotone, desc = "'nb' is monotone in t (outside the known weekend-intraday region)"),
            Ob('known.b-monotone-weekend-intraday', h_b_monotone(True), setup = S, classify = cls_monotone,
               desc = "'nb' monotone in t for two starts in the same weekend, the earlier with the later clock time (known finding region)"),
            Ob('b.compose', h_b_compose, setup = S, desc = "'ab' then 'bb' == '(a+b)b' from a weekday, same signs"),
            Ob('int.days', h_int, setup = S, desc = 'integer bump adds days'),
            Ob('timedelta', h_timedelta, setup = S, desc = 'timedelta bump adds exactly')]
    obs += [Ob('fixed.' + u, h_fixed(u), setup = S, desc = "'n%s' adds exactly n units" % u) for u in 'dwhns']
    obs += [Ob('monthly.' + u, h_monthly(u), setup = S, budget_s = 240, desc = "'n%s' at midnight keeps the day or rolls the excess into the next month" % u) for u in MONTHLY]
    obs += [Ob('named.' + k.replace('/', ''), h_named(k, n), setup = S, desc = 'named tenor %s == %db' % (k, n))
            for k, n in [('spot', 0), ('on', 1), ('o/n', 1), ('tn', 2), ('t/n', 2), ('sn', 3), ('s/n', 3), ('SPOT', 0)]]
    obs += [Ob('roundtrip.' + u, h_roundtrip(u), setup = S, budget_s = 240, desc = '+x then -x returns to t (%s)' % u) for u in UNITS]
    pairs = [p for p in itertools.product(UNITS, repeat = 2) if _ok_combo(p)]
    if quick:
        rnd = random.Random(int(os.environ.get('VERIF_SEED', '0')))
        must = [p for p in pairs if 'b' in p]; rest = [p for p in pairs if 'b' not in p]
        pairs = must + rnd.sample(rest, 12)
    obs += [Ob('compound2.' + ''.join(p), h_compound(p), setup = S, budget_s = 240, desc = 'two-part tenor n0%sn1%s == parts left to right' % p) for p in pairs]
    chunks = [range(lo, min(lo + 16, 61)) for lo in range(-60, 61, 16)]
    if not quick:
        triples = [p for p in itertools.product(UNITS, repeat = 3) if _ok_combo(p)]
        obs += [Ob('compound3.' + ''.join(p), h_compound(p), setup = S, budget_s = 300, desc = 'three-part tenor == parts left to right') for p in triples]
        for u in UNITS:
            for sp in ('plain', 'plus', 'upper'):
                for ch in (chunks if u in MONTHLY else [range(-60, 61)]):
                    obs.append(Ob('tokenizer.%s.%s.%d' % (u, sp, ch[0]), h_tokenizer(u, sp, ch), setup = S, budget_s = 400,
                                  desc = 'real tokenizer, every concrete n in [%d,%d], spelling %s' % (ch[0], ch[-1], sp)))
    else:
        obs.append(Ob('tokenizer.b.plain', h_tokenizer('b', 'plain'), setup = S, budget_s = 200, desc = 'real tokenizer, every concrete n in [-60,60]'))
        obs.append(Ob('tokenizer.m.plain', h_tokenizer('m', 'plain', range(-3, 4)), setup = S, budget_s = 200, desc = 'real tokenizer, every concrete n in [-3,3]'))
        obs.append(Ob('tokenizer.d.upper', h_tokenizer('d', 'upper'), setup = S, budget_s = 200, desc = 'real tokenizer, upper-case unit, every concrete n in [-60,60]'))
    return obs
