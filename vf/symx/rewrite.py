"""the one AST rewrite + guarded collections.

CPython coerces the results of `x in y`, `not x` and of comprehension filters to a real bool, which would force one fork per
element.  Loading a module through `load()` replaces those three constructs by helper calls (identity on concrete values), so that
a filtered comprehension over symbolic dates yields a *guarded list* [(guard, value)] and `dict(zip(guarded, range(len(guarded))))`
a symbolic dict whose lookups are if-then-else chains: Calendar._populate then runs once for all 2^W holiday sets."""
import ast, types, builtins, z3, datetime as _rdt, sys, importlib
from . import core
from .core import SymBool, SymInt, SymDatetime, Unsupported, zi, zb, mkbool, mkint, US_DAY

class GList:
    """sequence of (guard, value): the element is present iff its guard holds"""
    def __init__(self, items): self.items = list(items)
    def __iter__(self): raise Unsupported('native iteration over a guarded list')
    def __len__(self): raise Unsupported('native len of a guarded list (use the injected len)')

class SymSet:
    """a set of days given by a z3 predicate on the ordinal (the uninterpreted holiday predicate)"""
    def __init__(self, f): self.f = f
    def contains(self, x):
        if isinstance(x, SymDatetime): return mkbool(z3.And(self.f(x.o), x.us == 0))
        if isinstance(x, _rdt.datetime): return mkbool(self.f(z3.IntVal(x.toordinal()))) if core.tod_us(x) == 0 else False
        raise Unsupported('membership of %r in a symbolic set' % (type(x),))
    def keys(self): raise Unsupported('enumerating a symbolic set')
    def __iter__(self): raise Unsupported('enumerating a symbolic set')

def _keyeq(a, b):
    if isinstance(a, (SymDatetime, _rdt.datetime)) and isinstance(b, (SymDatetime, _rdt.datetime)):
        ka = a._key() if isinstance(a, SymDatetime) else z3.IntVal(a.toordinal() * US_DAY + core.tod_us(a))
        kb = b._key() if isinstance(b, SymDatetime) else z3.IntVal(b.toordinal() * US_DAY + core.tod_us(b))
        return ka == kb
    za, zb_ = zi(a), zi(b)
    if za is not None and zb_ is not None: return za == zb_
    return z3.BoolVal(bool(a == b))
def _ite(c, a, b):
    if isinstance(a, (SymDatetime, _rdt.datetime)) or isinstance(b, (SymDatetime, _rdt.datetime)):
        from .ops import todt
        a, b = todt(a), todt(b)
        return SymDatetime(z3.If(c, a.o, b.o), z3.If(c, a.us, b.us))
    return SymInt(z3.If(c, zi(a), zi(b)))

class SymDict:
    def __init__(self, triples): self.triples = list(triples)   # (guard, key, value); later entries win
    @property
    def __class__(self): return dict
    def _lookup(self, k):
        present = z3.BoolVal(False); val = None
        for g, kk, v in self.triples:
            hit = z3.And(g, _keyeq(kk, k))
            val = v if val is None else _ite(hit, v, val)
            present = z3.Or(present, hit)
        return z3.simplify(present), val
    def __getitem__(self, k):
        present, val = self._lookup(k)
        if not core.CUR.branch(present): raise KeyError(k)
        return val
    def get(self, k, default = None):
        present, val = self._lookup(k)
        if core.CUR.branch(present): return val
        return default
    def __contains__(self, k): raise Unsupported('use the injected membership helper')
    def keys(self): return GList([(g, k) for g, k, v in self.triples])
    def __len__(self): raise Unsupported('len of symbolic dict')

def sym_listcomp(elt, it, cond):
    if isinstance(it, GList):
        out = []
        for g, v in it.items:
            cc = cond(v)
            out.append((z3.And(g, zb(cc)), elt(v)))
        return GList(out)
    res = []; guarded = False
    for v in list(it):
        cc = cond(v)
        if isinstance(cc, SymBool): guarded = True; res.append((cc.e, elt(v)))
        elif cc: res.append((z3.BoolVal(True), elt(v)))
    return GList(res) if guarded else [v for _, v in res]

def sym_in(x, c):
    from .symstr import SymStr
    if isinstance(x, SymStr) and isinstance(c, str) and not isinstance(c, SymStr):
        if any(ch.isdigit() for ch in c): raise Unsupported('substring test of a template string against digits')
        return x.rep() in c
    if isinstance(c, SymStr): return c.__contains__(x)
    if isinstance(c, SymSet): return c.contains(x)
    if isinstance(c, SymDict): return mkbool(c._lookup(x)[0])
    if isinstance(c, GList): return mkbool(z3.Or([z3.And(g, _keyeq(v, x)) for g, v in c.items]))
    if core.is_sym(x) and isinstance(c, (builtins.dict, set, frozenset)) and not isinstance(c, SymDict):
        return mkbool(z3.Or([z3.simplify(_keyeq(k, x)) for k in c])) if len(c) else False
    if core.is_sym(x) and isinstance(c, (list, tuple)):
        return mkbool(z3.Or([zb(x == v) for v in c])) if len(c) else False
    if isinstance(c, (list, tuple)) and any(core.is_sym(v) for v in c):
        return mkbool(z3.Or([zb(v == x) for v in c]))
    return x in c
def sym_not(v):
    return core.sym_not(v)
def sym_len(x):
    if isinstance(x, GList): return mkint(z3.Sum([z3.If(g, 1, 0) for g, _ in x.items])) if x.items else 0
    return builtins.len(x)
class SymRange:
    def __init__(self, n): self.n = n
class _RangeMeta(type):
    def __instancecheck__(cls, x): return isinstance(x, builtins.range)
class sym_range(metaclass = _RangeMeta):
    def __new__(cls, *a):
        if len(a) == 1 and isinstance(a[0], SymInt): return SymRange(a[0])
        if any(isinstance(v, SymInt) for v in a):
            c = core.CUR
            return builtins.range(*[c.concretize_int(zi(v), limit = 64) if isinstance(v, SymInt) else v for v in a])
        return builtins.range(*a)
class ZipGR:
    def __init__(self, triples): self.triples = triples
class _ZipMeta(type):
    def __instancecheck__(cls, x): return isinstance(x, builtins.zip)
class sym_zip(metaclass = _ZipMeta):
    def __new__(cls, *a):
        if len(a) == 2 and isinstance(a[0], GList) and isinstance(a[1], SymRange):
            triples = []; cnt = z3.IntVal(0)
            for g, v in a[0].items:
                triples.append((g, v, SymInt(z3.simplify(cnt)))); cnt = cnt + z3.If(g, 1, 0)
            return ZipGR(triples)
        if len(a) == 2 and isinstance(a[1], GList) and isinstance(a[0], SymRange):
            z = sym_zip(a[1], a[0]); return ZipGR([(g, i, v) for g, v, i in z.triples])
        return builtins.zip(*a)
class _DictMeta(type):
    def __instancecheck__(cls, x): return isinstance(x, builtins.dict)
    def __subclasscheck__(cls, x): return issubclass(x, builtins.dict)
class sym_dict(builtins.dict, metaclass = _DictMeta):
    def __new__(cls, *a, **k):
        if len(a) == 1 and isinstance(a[0], ZipGR): return SymDict(a[0].triples)
        if len(a) == 1 and not k and isinstance(a[0], builtins.zip):
            pairs = list(a[0])
            if any(core.is_sym(p[0]) for p in pairs): return SymDict([(z3.BoolVal(True), p[0], p[1]) for p in pairs])
            return builtins.dict(pairs)
        return builtins.dict(*a, **k)

class _SetMeta(type):
    def __instancecheck__(cls, x): return isinstance(x, builtins.set)
class sym_set(metaclass = _SetMeta):
    """set() of values that may be proxies: duplicates are removed by pairwise equality (forks), the result is a list (iteration order =
    first occurrence); identity on concrete values"""
    def __new__(cls, it = ()):
        items = list(it)
        if not any(core.is_sym(v) for v in items): return builtins.set(items)
        out = []
        for v in items:
            if not any((True if u is v else bool(u == v)) for u in out): out.append(v)
        return out

class Rewrite(ast.NodeTransformer):
    def visit_ListComp(self, node):
        self.generic_visit(node)
        if len(node.generators) == 1 and len(node.generators[0].ifs) == 1 and isinstance(node.generators[0].target, ast.Name) and not node.generators[0].is_async:
            g = node.generators[0]
            arg = ast.arguments(posonlyargs = [], args = [ast.arg(g.target.id)], kwonlyargs = [], kw_defaults = [], defaults = [])
            return ast.Call(ast.Name('__sym_listcomp__', ast.Load()), [ast.Lambda(arg, node.elt), g.iter, ast.Lambda(arg, g.ifs[0])], [])
        return node
    def visit_Compare(self, node):
        self.generic_visit(node)
        if len(node.ops) == 1 and isinstance(node.ops[0], (ast.In, ast.NotIn)):
            call = ast.Call(ast.Name('__sym_in__', ast.Load()), [node.left, node.comparators[0]], [])
            if isinstance(node.ops[0], ast.NotIn): call = ast.Call(ast.Name('__sym_not__', ast.Load()), [call], [])
            return call
        return node
    def visit_UnaryOp(self, node):
        self.generic_visit(node)
        if isinstance(node.op, ast.Not): return ast.Call(ast.Name('__sym_not__', ast.Load()), [node.operand], [])
        return node

INJECT = dict(__sym_listcomp__ = sym_listcomp, __sym_in__ = sym_in, __sym_not__ = sym_not, len = sym_len, range = sym_range, zip = sym_zip, dict = sym_dict)

def load(modname, extra = None):
    """re-execute the *current source* of an already imported module through the rewrite, into a fresh module object"""
    real = importlib.import_module(modname)
    path = real.__file__
    tree = Rewrite().visit(ast.parse(open(path).read())); ast.fix_missing_locations(tree)
    mod = types.ModuleType(modname + '__symx'); mod.__file__ = path; mod.__package__ = real.__package__
    mod.__dict__.update(INJECT)
    if extra: mod.__dict__.update(extra)
    exec(compile(tree, path, 'exec'), mod.__dict__)
    if extra: mod.__dict__.update(extra)
    return mod
