"""C08 timeseries operators equal the pointwise operation on aligned operands (1-d timeseries)."""
import datetime as _rdt
from vf.runner import Ob
from vf import minipd
from vf.symx import core, shims, ops as X
from .pandas_common import *
from . import values as V
from .dates_common import key

FUNCS = ['pyg_base._pandas:add_', 'pyg_base._pandas:sub_', 'pyg_base._pandas:mul_', 'pyg_base._pandas:div_', 'pyg_base._pandas:_add_', 'pyg_base._pandas:_sub_', 'pyg_base._pandas:_mul_',
         'pyg_base._pandas:_div_', 'pyg_base._pandas:gt_', 'pyg_base._pandas:min_', 'pyg_base._pandas:max_', 'pyg_base._pandas:presync.wrapped', 'pyg_base._pandas:df_index', 'pyg_base._pandas:_df_index',
         'pyg_base._pandas:df_reindex', 'pyg_base._pandas:_df_reindex', 'pyg_base._pandas:df_sync', 'pyg_base._pandas:df_sum', 'pyg_base._pandas:df_mean', 'pyg_base._pandas:df_count',
         'pyg_base._pandas:_mask', 'pyg_base._pandas:mask2v', 'pyg_base._reducer:reducer']
BOUNDS = dict(operands = '2..3 operands, each a datetime-indexed Series of 0..2 rows (thorough 3) whose stamps are symbolic days inside a common 7-day window (overlapping, disjoint, nested, empty are solver cases) '
                         'or a symbolic scalar; values symbolic floats incl. NaN and 0', policies = 'index policy ij and oj; lists of operands')
OUTSIDE = ['frames with more than 3 columns or more than 2 rows, single-column frames (they act as series by design), comparisons / min_ / max_ / df_sum / df_mean / df_count on frames', 'floating-point rounding (floats are exact extended reals; both implementation and oracle are evaluated in the same arithmetic)', 'pow_, df_std']
ASSUMPTIONS = ['pandas replaced by the minipd model, validated against the real pandas each run (index intersection/union, reindex, aligned arithmetic, division by zero -> inf/nan as numpy)']

def series(c, name, n, base, nan = True):
    td = shims.shim_timedelta if c.mode == 'sym' else _rdt.timedelta
    offs = []
    for i in range(n):
        o = c.int('%s.o%d' % (name, i), 0, 6)
        if i: c.assume(o > offs[-1])
        offs.append(o)
    ts = [base + td(days = o) for o in offs]
    vs = [c.float('%s.v%d' % (name, i), allow = (core.FIN, core.NAN) if nan else (core.FIN,), halves = 12) for i in range(n)]
    return mkseries(c, vs, ts), ts, vs, offs

def lookup(offs, vs, o):
    """value of the series at offset o, or None when it has no such stamp (forks)"""
    for oo, v in zip(offs, vs):
        if oo == o: return v
    return None

def union_offsets(all_offs):
    out = []
    for offs in all_offs:
        for o in offs:
            if not any(o == u for u in out): out.append(o)
    # ascending order
    srt = []
    for o in out:
        pos = len(srt)
        for p, u in enumerate(srt):
            if o < u: pos = p; break
        srt.insert(pos, o)
    return srt

NANF = float('nan')
def opf(op, x, y):
    if op == 'add': return x + y
    if op == 'sub': return x - y
    if op == 'mul': return x * y
    if op == 'div':
        if X.And(X.Not(V.is_nan(y)), y == 0): return NANF          # division by zero yields NaN, never +-inf
        return minipd._npdiv(x, y)
    if op == 'gt': return x > y
    if op == 'min': return x if X.Or(V.is_nan(x), X.And(X.Not(V.is_nan(y)), x <= y)) else y
    if op == 'max': return x if X.Or(V.is_nan(x), X.And(X.Not(V.is_nan(y)), x >= y)) else y

def h_binary(op, na, nb, join, b_scalar):
    def h(c):
        Pm = P(); base = c.day('base')
        a, ta, va, oa = series(c, 'a', na, base)
        if b_scalar: b = c.float('b', allow = (core.FIN,), halves = 12); ob = None
        else: b, tb, vb, ob = series(c, 'b', nb, base)
        f = getattr(Pm, op + '_')
        r = f(a, b, join = join)
        offs = oa if b_scalar else ([o for o in oa if lookup(ob, vb, o) is not None] if join == 'ij' else union_offsets([oa, ob]))
        got = rows(r)
        c.cover('overlap', len([o for o in oa if lookup(ob, vb, o) is not None]) > 0) if (na and nb and not b_scalar) else None
        c.check('result-index-is-the-%s-of-the-operand-indices' % ('intersection' if join == 'ij' else 'union'), len(got) == len(offs) and all(key(g[0]) == key(base) + o * core.US_DAY for g, o in zip(got, offs)))
        for g, o in zip(got, offs):
            x = lookup(oa, va, o); y = b if b_scalar else lookup(ob, vb, o)
            x = NANF if x is None else x; y = NANF if y is None else y
            w = opf(op, x, y)
            c.check('result[t]==a[t]-op-b[t]', (g[1] == w) if op == 'gt' else feq(g[1], w))
            if op == 'div': c.check('division-never-yields-inf', X.Not(minipd._isinf(g[1])) if not (minipd._isinf(x) or minipd._isinf(y)) else True)
        if op in ('add', 'mul') and not b_scalar:
            r2 = rows(f(b, a, join = join))
            c.check('commutative', len(r2) == len(got) and all(key(p[0]) == key(q[0]) and feq(p[1], q[1]) for p, q in zip(got, r2)))
        if b_scalar and op in ('add', 'mul', 'sub'):
            r3 = rows(f(b, a, join = join))
            c.check('scalar-on-the-left-broadcasts', len(r3) == len(offs) and all(feq(p[1], opf(op, b, lookup(oa, va, o))) for p, o in zip(r3, offs)))
    return h

def h_reduce(op, n, join):
    """a list of three operands reduces left to right"""
    def h(c):
        Pm = P(); base = c.day('base')
        ss = [series(c, 's%d' % i, n, base, nan = False) for i in range(3)]
        f = getattr(Pm, op + '_')
        r = rows(f([s[0] for s in ss], join = join))
        offs = [o for o in ss[0][3] if all(lookup(s[3], s[2], o) is not None for s in ss[1:])] if join == 'ij' else union_offsets([s[3] for s in ss])
        c.check('index', len(r) == len(offs))
        for g, o in zip(r, offs):
            vals = [lookup(s[3], s[2], o) for s in ss]; vals = [NANF if v is None else v for v in vals]
            c.check('reduces-left-to-right', feq(g[1], opf(op, opf(op, vals[0], vals[1]), vals[2])))
    return h

def h_agg(which, n):
    def h(c):
        Pm = P(); base = c.day('base')
        ss = [series(c, 's%d' % i, n, base) for i in range(2)]
        f = getattr(Pm, 'df_' + which)
        r = rows(f([s[0] for s in ss]))
        offs = union_offsets([s[3] for s in ss])
        c.check('uses-the-union-index', len(r) == len(offs) and all(key(g[0]) == key(base) + o * core.US_DAY for g, o in zip(r, offs)))
        for g, o in zip(r, offs):
            vals = [lookup(s[3], s[2], o) for s in ss]
            good = [v for v in vals if v is not None and not V.is_nan(v)]          # forks on NaN-ness
            if which == 'count': c.check('count-of-non-nan-operands', g[1] == len(good))
            elif not good: c.check('nan-where-no-operand-has-data', V.is_nan(g[1]))
            elif which == 'sum': c.check('sum-skips-nan', feq(g[1], good[0] if len(good) == 1 else good[0] + good[1]))
            else: c.check('mean-skips-nan', feq(g[1], good[0] if len(good) == 1 else (good[0] + good[1]) / 2))
    return h

# ---------------------------------------------------------------- multi-column frames and the column policy
COLSETS = [('a', 'c'), ('a', 'b'), ('b', 'c'), ('a', 'b', 'c')]        # frames with a single column act as a series (broadcast over the other side's columns) by design: not used here
NEUTRAL = dict(add = 0.0, sub = 0.0, mul = 1.0, div = 1.0)

def frame(c, name, n, base, colset):
    td = shims.shim_timedelta if c.mode == 'sym' else _rdt.timedelta
    offs = []
    for i in range(n):
        o = c.int('%s.o%d' % (name, i), 0, 4)
        if i: c.assume(o > offs[-1])
        offs.append(o)
    ts = [base + td(days = o) for o in offs]
    cols = {k: [c.float('%s.%s%d' % (name, k, i), allow = (core.FIN, core.NAN), halves = 8) for i in range(n)] for k in colset}
    if c.mode == 'sym': f = minipd.DataFrame({k: list(v) for k, v in cols.items()}, index = list(ts))
    else:
        import pandas as rpd
        f = rpd.DataFrame({k: [float(x) for x in v] for k, v in cols.items()}, index = rpd.DatetimeIndex(list(ts)), dtype = float)
    return f, offs, cols

def frame_cells(f):
    """{column: [(label, value)]} of a minipd / real frame"""
    if isinstance(f, minipd.DataFrame): return {c: list(zip(f._i._l, f._c[c])) for c in f._cols}
    return {c: list(zip([t.to_pydatetime() for t in f.index], [float(v) for v in f[c].values])) for c in f.columns}

def h_frames(op, na, nb, ia, ib, join, columns):
    def h(c):
        Pm = P(); base = c.day('base')
        A, oa, ca = frame(c, 'A', na, base, COLSETS[ia]); B, ob, cb = frame(c, 'B', nb, base, COLSETS[ib])
        r = getattr(Pm, op + '_')(A, B, join = join, columns = columns)
        sa, sb = set(COLSETS[ia]), set(COLSETS[ib])
        wantcols = sorted(sa & sb) if columns == 'ij' else sorted(sa | sb)
        offs = [o for o in oa if lookup(ob, ob, o) is not None] if join == 'ij' else union_offsets([oa, ob])
        got = frame_cells(r)
        c.check('columns-are-the-%s-of-the-operand-columns' % ('intersection' if columns == 'ij' else 'union'), sorted(got.keys()) == wantcols)
        for col in wantcols:
            c.check('index-per-policy', len(got[col]) == len(offs) and all(key(g[0]) == key(base) + o * core.US_DAY for g, o in zip(got[col], offs)))
            for g, o in zip(got[col], offs):
                x = (lookup(oa, ca[col], o) if col in ca else NEUTRAL[op]); y = (lookup(ob, cb[col], o) if col in cb else NEUTRAL[op])     # a column missing on one side acts as the neutral element
                x = NANF if x is None else x; y = NANF if y is None else y
                c.check('cell==a-op-b-with-neutral-element-for-a-missing-column', feq(g[1], opf(op, x, y)))
    return h

def h_sub_list(columns):
    """sub_(a, [b, c]) subtracts the sum of the list, under the same column policy"""
    def h(c):
        Pm = P(); base = c.day('base')
        A, oa, ca = frame(c, 'A', 1, base, ('a', 'b')); B, ob, cb = frame(c, 'B', 1, base, ('b', 'c')); C, oc, cc = frame(c, 'C', 1, base, ('a', 'c'))
        c.assume(X.And(oa[0] == ob[0], ob[0] == oc[0]))
        r = frame_cells(Pm.sub_(A, [B, C], columns = columns))
        want = ['a', 'b', 'c'] if columns == 'oj' else []
        c.check('columns', sorted(r.keys()) == want)
        for col in want:
            x = ca[col][0] if col in ca else 0.0; y = (cb[col][0] if col in cb else 0.0); z = (cc[col][0] if col in cc else 0.0)
            c.check('a-minus-the-sum-of-the-list-with-missing-columns-as-zero', len(r[col]) == 1 and feq(r[col][0][1], x - (y + z)))
    return h

def h_div_list(columns):
    """div_(a, [b, c]) divides by the product of the list, under the same column policy"""
    def h(c):
        Pm = P(); base = c.day('base')
        A, oa, ca = frame(c, 'A', 1, base, ('a', 'b')); B, ob, cb = frame(c, 'B', 1, base, ('b', 'c')); C, oc, cc = frame(c, 'C', 1, base, ('a', 'c'))
        c.assume(X.And(oa[0] == ob[0], ob[0] == oc[0]))
        r = frame_cells(Pm.div_(A, [B, C], columns = columns))
        want = ['a', 'b', 'c'] if columns == 'oj' else []
        c.check('columns', sorted(r.keys()) == want)
        for col in want:
            x = ca[col][0] if col in ca else 1.0; y = (cb[col][0] if col in cb else 1.0); z = (cc[col][0] if col in cc else 1.0)
            c.check('a-over-the-product-of-the-list-with-missing-columns-as-one', len(r[col]) == 1 and feq(r[col][0][1], opf('div', x, opf('mul', y, z))))
    return h

def h_list_with_scalar(op):
    """a list [frame, scalar, frame] reduces left to right: under the outer column policy the grouping matters (a scalar only reaches the columns present at that point)"""
    def h(c):
        Pm = P(); base = c.day('base')
        A, oa, ca = frame(c, 'A', 1, base, ('a', 'b')); B, ob, cb = frame(c, 'B', 1, base, ('b', 'c'))
        c.assume(oa[0] == ob[0])
        sc = c.float('s', allow = (core.FIN,), halves = 8)
        r = frame_cells(getattr(Pm, op + '_')([A, sc, B], columns = 'oj'))
        neutral = NEUTRAL[op]
        acc = {k: opf(op, ca[k][0], sc) for k in ('a', 'b')}                                   # (A op s): the scalar broadcasts over A's columns
        want = {k: opf(op, acc.get(k, neutral), cb[k][0] if k in cb else neutral) for k in ('a', 'b', 'c')}       # ... op B, missing columns act as the neutral element
        c.check('columns', sorted(r.keys()) == ['a', 'b', 'c'])
        for col in ('a', 'b', 'c'):
            c.check('list-with-a-scalar-reduces-left-to-right-under-the-outer-column-policy', len(r[col]) == 1 and feq(r[col][0][1], want[col]))
    return h

def gate_frames(stride = 1):
    """the real add_/sub_/mul_/div_ under the real pandas vs under the minipd frame model, on an exhaustive small domain of two-column frames"""
    import pandas as rpd, numpy as np, itertools, pyg_base._pandas as RP
    nan = float('nan'); grid = [_rdt.datetime(2020, 1, 1) + _rdt.timedelta(days = i) for i in range(3)]
    rowsets = [(), (0,), (1,), (0, 1), (1, 2)]; vals = [2.0, 0.0, nan]
    cases = []
    for ia, ib in itertools.product(range(3), repeat = 2):
        for ra, rb in itertools.product(rowsets, repeat = 2):
            for k, seedv in enumerate(itertools.product(vals, repeat = 2)):
                va = {col: [seedv[(i + j) % 2] + (i if seedv[(i + j) % 2] == 2.0 else 0) for i in range(len(ra))] for j, col in enumerate(COLSETS[ia])}
                vb = {col: [seedv[(i + j + 1) % 2] for i in range(len(rb))] for j, col in enumerate(COLSETS[ib])}
                cases.append((ra, va, rb, vb))
    cases = cases[::stride]
    def run(Pm, mk):
        out = []
        for ra, va, rb, vb in cases:
            A = mk(va, [grid[i] for i in ra]); B = mk(vb, [grid[i] for i in rb])
            res = []
            for op in ('add', 'sub', 'mul', 'div'):
                for join in ('ij', 'oj'):
                    for cols in ('ij', 'oj'):
                        try: res.append(frame_cells(getattr(Pm, op + '_')(A, B, join = join, columns = cols)))
                        except Exception as e: res.append('raised %s' % type(e).__name__)
            out.append(res)
        return out
    with np.errstate(all = 'ignore'):
        real = run(RP, lambda v, i: rpd.DataFrame({k: list(x) for k, x in v.items()}, index = rpd.DatetimeIndex(i), dtype = float))
    Pm = setup_pandas()
    model = run(Pm, lambda v, i: minipd.DataFrame({k: list(x) for k, x in v.items()}, index = list(i)))
    n = 0
    def same(x, y):
        if isinstance(x, str) or isinstance(y, str): return isinstance(x, str) and isinstance(y, str)
        if sorted(x.keys()) != sorted(y.keys()): return False
        return all(len(x[c]) == len(y[c]) and all(p[0] == q[0] and (p[1] == q[1] or (p[1] != p[1] and q[1] != q[1])) for p, q in zip(x[c], y[c])) for c in x)
    for case, ra_, ma_ in zip(cases, real, model):
        for x, y in zip(ra_, ma_):
            n += 1
            if not same(x, y): return False, dict(mismatch = str(case)[:300], real = str(x)[:300], model = str(y)[:300])
    return True, dict(comparisons = n, cases = len(cases))

def obligations(tier):
    q = tier == 'quick'; N = 2 if q else 3
    S = setup_pandas
    obs = [Ob('gate.minipd-vs-pandas', minipd.gate, engine = 'gate', desc = 'the pandas model equals the real pandas on an exhaustive small grid')]
    for op in ('add', 'sub', 'mul', 'div', 'gt', 'min', 'max'):
        for join in ('ij', 'oj'):
            for na in range(0, N + 1):
                for nb in range(0, N + 1):
                    if q and na + nb > 3: continue
                    obs.append(Ob('%s.%s.%dx%d' % (op, join, na, nb), h_binary(op, na, nb, join, False), setup = S, budget_s = 300 if q else 1500,
                                  desc = '%s_(a, b, join=%s) on Series of %d and %d rows: index and pointwise values' % (op, join, na, nb)))
            if op not in ('min', 'max'):
                for na in range(0, N + 1):
                    obs.append(Ob('%s.%s.%d.scalar' % (op, join, na), h_binary(op, na, 0, join, True), setup = S, budget_s = 300, desc = '%s_ of a Series of %d rows and a scalar (either side)' % (op, na)))
    for op in ('add', 'mul'):
        for join in ('ij', 'oj'):
            obs.append(Ob('reduce.%s.%s' % (op, join), h_reduce(op, 1 if q else 2, join), setup = S, budget_s = 300 if q else 1500, desc = '%s_ of a list of three operands reduces left to right' % op))
    obs.append(Ob('gate.frame-model', (lambda: gate_frames(4)) if q else gate_frames, engine = 'gate', budget_s = 900, desc = 'add_/sub_/mul_/div_ under the DataFrame model == under the real pandas on an exhaustive small domain of frames'))
    for op in ('add', 'sub', 'mul', 'div'):
        for columns in ('ij', 'oj'):
            for ia, ib in ([(1, 2), (0, 1), (1, 1), (3, 2)] if q else [(i, j) for i in range(4) for j in range(4)]):
                for (na, nb) in ([(1, 1)] if q else [(1, 1), (2, 1), (1, 2), (0, 1)]):
                    for join in ('ij', 'oj'):
                        obs.append(Ob('frames.%s.%s-cols.%s.%s.%s.%dx%d' % (op, columns, ''.join(COLSETS[ia]), ''.join(COLSETS[ib]), join, na, nb), h_frames(op, na, nb, ia, ib, join, columns), setup = S, budget_s = 300 if q else 1500,
                                      desc = '%s_ of frames with columns %s and %s, column policy %s, index policy %s' % (op, COLSETS[ia], COLSETS[ib], columns, join)))
    for columns in ('oj',):          # under 'ij' the pre-summed list may collapse to one column, which then broadcasts (single-column frames act as series)
        obs.append(Ob('frames.sub-list.%s' % columns, h_sub_list(columns), setup = S, budget_s = 300, desc = 'sub_(a, [b, c], columns=%s) on frames with different column sets' % columns))
        obs.append(Ob('frames.div-list.%s' % columns, h_div_list(columns), setup = S, budget_s = 300, desc = 'div_(a, [b, c], columns=%s) on frames with different column sets' % columns))
    for op in ('add', 'mul'):
        obs.append(Ob('frames.list-with-scalar.%s' % op, h_list_with_scalar(op), setup = S, budget_s = 300, desc = '%s_([frame, scalar, frame], columns=oj) reduces left to right' % op))
    for which in ('sum', 'mean', 'count'):
        for n in range(0, N + 1):
            obs.append(Ob('df_%s.%d' % (which, n), h_agg(which, n), setup = S, budget_s = 300 if q else 1500, desc = 'df_%s of two Series of %d rows: union index, NaN skipped' % (which, n)))
    return obs
